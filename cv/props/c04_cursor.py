"""C04-R6: the cursor of detail::ArgListIterator stays inside argv and inside the current word.

The iterator walks argv with two cursors (word index, character position inside the word) across
calls.  Its memory safety for EVERY argument vector follows from an invariant with four cases that is
proved inductively (Engine C, no execution):

  A  at a word start        : charPos == 0, 1 <= index <= argc, no pending value
  B  inside a '-abc' word   : 1 <= charPos <= strlen( argv[ index]) - 1, 1 <= index < argc, no pending value
  C  value after '--name='  : pending value, 1 <= charPos <= strlen( argv[ index]), 1 <= index < argc
  E  end                    : index == argc + 1

The constructor must establish one of the cases, operator++ is analysed from each case and must end in
one of them again; every argv[ i] and word[ j] evaluated on the way carries its bounds obligation
(argv has argc strings followed by a null pointer; words are C strings of unknown, unbounded length;
all bytes unconstrained).  The recursive call of operator++ inside determineNextArg() (a lone '--')
is handled by the invariant itself (assume-guarantee): the cases must hold at the call and any case
may hold after it.  argsAsString() and isSingleArg() are analysed from the cases as well."""
import re

from ..bounds import Engine, Ptr, Obj, Obligation, UNKNOWN, St, _ev_all, btype
from ..lin import Lin, lin, ge, le, lt, gt, eq, entails, feasible, TooBig

CLS = 'celma::prog_args::detail::ArgListIterator'
CASES = ('A', 'B', 'C', 'E')


def word(eng, st, idx):
    """region of argv[ idx] (a C string of unknown length), created on demand; the same index expression
    designates the same word"""
    name = 'argv[%r]' % (idx,)
    if name not in st.regions:
        w = eng.named('strlen(%s)' % name, st, 'unsigned long')
        st.assume(le(w, (1 << 31) - 1))     # a word is shorter than 2 GiB (positions are stored in an int)
        st.regions[name] = w + 1
        st.fields[(name, 'strlen')] = w
        eng.add_nul(st, name, w)
    return name, st.fields[(name, 'strlen')]


def load_hook(eng, st, ptr, t):
    """argv[ i]: a word for i < argc; argv[ argc] is the terminating null pointer (the access obligation of the
    region, size argc + 1, has been raised by the caller)"""
    if ptr.region != 'argv':
        return None
    argc = st.fields.get(('ghost', 'argc'))
    if argc is not None and entails(st.cons, ge(ptr.off, argc)):
        return lin(0)
    if argc is not None and not entails(st.cons, le(ptr.off, argc - 1)):
        # cannot tell: treat the element as the null pointer if it may be the terminator - the dereference
        # that follows is then reported
        probe = st.cons + [ge(ptr.off, argc)]
        try:
            may_be_null = feasible(probe)
        except TooBig:
            may_be_null = True
        if may_be_null:
            st.trail.append('argv[ %r] may be the terminating null pointer' % (ptr.off,))
            return lin(0)
    name, _ = word(eng, st, ptr.off)
    return Ptr(name, 0)


def m_setter(eng, n, st, func, want):
    """ArgListElement::setValue/setArgString/setArgChar/setControl: a const char* argument must point into a
    C string (at least its first byte is read)"""
    objn, args = eng.args_of(n)
    out = []
    for vals, s1 in _ev_all(eng, args, st, func):
        short = (n.get('callee') or '').split('::')[-1]
        argc = s1.fields.get(('ghost', 'argc'))
        if vals and isinstance(vals[0], Lin) and argc is not None:
            # the element describes a real word of argv ...
            eng.oblige(s1, [ge(vals[0], 1), le(vals[0], argc - 1)], 'invariant',
                       'the element refers to a word of argv (1 <= index < argc)', n, func, 'index %r;' % (vals[0],))
            if short == 'setArgChar' and len(vals) >= 2 and isinstance(vals[1], Lin):
                # ... and a single-character argument to a character inside that word
                _, w = word(eng, s1, vals[0])
                eng.oblige(s1, [ge(vals[1], 1), le(vals[1], w - 1)], 'invariant',
                           'a single-character argument lies inside its word (1 <= position < length)', n, func,
                           'position %r, length %r;' % (vals[1], w))
        if short == 'setArgString' and len(vals) >= 2 and isinstance(vals[1], Obj):
            # '--key=value': the key handed on is exactly the text in front of the '=' that was found
            for g in s1.ghost:
                if g[0] == 'cfind' and g[2] == vals[1].name and g[3] == ord('='):
                    ln = eng.string_len(s1, vals[1].name)
                    eng.oblige(s1, eq(ln, g[4]), 'split', "the long key is exactly the text in front of the '=' "
                               "found in the word", n, func, 'key length %r, position of the \'=\' %r;' % (ln, g[4]))
        for a, v in zip(args, vals):
            if (a.get('t') or '').replace('const ', '').strip() == 'char *':
                if isinstance(v, Ptr):
                    eng.access(s1, v, 1, 'C string handed to the element', n, func)
                else:
                    eng.obligations.append(Obligation(eng.root, 'bounds', 'C string handed to the element is a valid '
                                                      'pointer', False, func.loc(n), 'value %r' % (v,)))
        out.append((UNKNOWN, s1))
    return out


def case_constraints(eng, st, case, obj='this'):
    """constraints of an invariant case on the current field values of obj (creates the word on demand)"""
    idx = st.fields[(obj, 'mArgIndex')]
    pos = st.fields[(obj, 'mArgCharPos')]
    nv = st.fields[(obj, 'mNextIsValue')]
    argc = st.fields[(obj, 'mArgC')]
    if case == 'E':
        return eq(idx, argc + 1)
    if case == 'A':
        return eq(pos, 0) + [ge(idx, 1), le(idx, argc)] + eq(nv, 0)
    _, w = word(eng, st, idx)
    if case == 'B':
        return [ge(pos, 1), le(pos, w - 1), ge(idx, 1), le(idx, argc - 1)] + eq(nv, 0)
    return [ge(pos, 1), le(pos, w), ge(idx, 1), le(idx, argc - 1)] + eq(nv, 1)


def which_case(eng, st, obj='this'):
    for c in CASES:
        for k in ('mArgIndex', 'mArgCharPos', 'mNextIsValue', 'mArgC'):
            if not isinstance(st.fields.get((obj, k)), Lin):
                return None
        s1 = st.copy()
        cons = case_constraints(eng, s1, c, obj)
        if all(entails(s1.cons, g) for g in cons):
            return c
    return None


def enter(eng, st, case, obj='this'):
    """makes obj an iterator over a symbolic argv in the given invariant case"""
    argc = eng.named('argc', st, 'int')
    st.assume(ge(argc, 1))
    st.fields[('ghost', 'argc')] = argc
    st.regions['argv'] = argc + 1
    st.fields[(obj, 'mArgC')] = argc
    st.ftypes[(obj, 'mArgC')] = 'int'
    st.fields[(obj, 'mpArgV')] = Ptr('argv', 0)
    st.fields[(obj, 'mpSource')] = Obj('src', 'celma::prog_args::detail::ArgListParser')
    st.fields[('src', 'mArgCount')] = argc
    st.fields[('src', 'mpArgV')] = Ptr('argv', 0)
    idx = eng.named('%s.mArgIndex' % obj, st, 'int')
    pos = eng.named('%s.mArgCharPos' % obj, st, 'unsigned long')
    st.fields[(obj, 'mArgIndex')] = idx
    st.ftypes[(obj, 'mArgIndex')] = 'int'
    st.fields[(obj, 'mArgCharPos')] = pos
    st.ftypes[(obj, 'mArgCharPos')] = 'unsigned long'
    nv = lin(1) if case == 'C' else lin(0)
    st.fields[(obj, 'mNextIsValue')] = nv
    st.ftypes[(obj, 'mNextIsValue')] = 'bool'
    for flag in ('mRemainingArgumentStringAsValue', 'mAcceptDashedValue'):
        b = eng.named('%s.%s' % (obj, flag), st, 'bool')
        st.fields[(obj, flag)] = b
        st.ftypes[(obj, flag)] = 'bool'
    ln = eng.named('%s.mCurrArgStringLen' % obj, st, 'unsigned long')
    st.fields[(obj, 'mCurrArgStringLen')] = ln
    st.ftypes[(obj, 'mCurrArgStringLen')] = 'unsigned long'
    st.assume(*case_constraints(eng, st, case, obj))
    st.trail.append('iterator in case %s' % case)
    return st.ok()


def make_models(eng_holder):
    def m_recursive_step(eng, n, st, func, want):
        """operator++ called from inside the analysed members (determineNextArg on a lone '--', postfix ++): the
        invariant must hold at the call; afterwards any case may hold (fresh cursor values)"""
        objn, args = eng.args_of(n)
        if args:                   # the postfix form is analysed by inlining
            return None
        if eng.depth == 0:
            return None            # not reached: the root is entered through analyse()
        c = which_case(eng, st)
        eng.obligations.append(Obligation(
            eng.root, 'invariant', 'the cursor invariant holds at the nested call of operator++', c is not None,
            func.loc(n), '' if c is not None else 'no case of the invariant is implied on the path [%s]' % '; '.join(
                st.trail[-6:])))
        out = []
        idx_c, pos_c = st.fields.get(('this', 'mArgIndex')), st.fields.get(('this', 'mArgCharPos'))
        for case in CASES:
            # induction hypothesis of the progress rule: the nested step moves the cursor forward as well (the
            # recursion is well-founded: it is entered only after the word index was incremented)
            for forward in ('word', 'char'):
                s1 = st.copy()
                for k, t in (('mArgIndex', 'int'), ('mArgCharPos', 'unsigned long'), ('mCurrArgStringLen', 'unsigned long')):
                    s1.fields[('this', k)] = eng.fresh('this.' + k, s1, t)
                s1.fields[('this', 'mNextIsValue')] = lin(1) if case == 'C' else lin(0)
                for flag in ('mRemainingArgumentStringAsValue', 'mAcceptDashedValue'):
                    s1.fields[('this', flag)] = eng.fresh('this.' + flag, s1, 'bool')
                s1.assume(*case_constraints(eng, s1, case))
                if isinstance(idx_c, Lin) and isinstance(pos_c, Lin):
                    if forward == 'word':
                        s1.assume(ge(s1.fields[('this', 'mArgIndex')], idx_c + 1))
                    else:
                        s1.assume(*(eq(s1.fields[('this', 'mArgIndex')], idx_c) +
                                    [ge(s1.fields[('this', 'mArgCharPos')], pos_c + 1)]))
                elif forward == 'char':
                    continue
                s1.trail.append('after the nested step: case %s' % case)
                if s1.ok():
                    out.append((Obj('this', 'this'), s1))
        return out
    return m_recursive_step


def make_engine(prog):
    cfg = {
        'inline': ('celma::prog_args::detail::ArgListIterator<', 'celma::prog_args::detail::ArgListParser'),
        'inline_depth': 4, 'check_loop_bound_wrap': False, 'load_hook': load_hook, 'track_reads': True,
        'cstring_elems': True,
        'models': {
            'celma::prog_args::detail::ArgListElement::setValue': m_setter,
            'celma::prog_args::detail::ArgListElement::setArgString': m_setter,
            'celma::prog_args::detail::ArgListElement::setArgChar': m_setter,
            'celma::prog_args::detail::ArgListElement::setControl': m_setter,
        },
    }
    eng = Engine(prog, cfg)
    eng.root_short = ''
    step = make_models(eng)
    for f in prog.functions:
        if (f.classq or '') == CLS and f.short == 'operator++' and not f.params:
            eng.models[f.name] = step
    return eng


def run(chk, prog, rule='R6', split_rule=None, progress_rule=None):
    fs = [f for f in prog.functions if (f.classq or '') == CLS]
    by = {}
    for f in fs:
        by.setdefault(f.short + ('/postfix' if f.short == 'operator++' and f.params else ''), []).append(f)
    need = ('ArgListIterator', 'operator++', 'operator++/postfix', 'determineNextArg', 'argsAsString', 'isSingleArg')
    chk.require(all(k in by for k in need), 'ArgListIterator members missing: %s' % [k for k in need if k not in by])
    eng = make_engine(prog)
    tagc = 'ArgListIterator<ArgListParser, ArgListElement>'

    def report(f, before, tag):
        n = 0
        for o in eng.obligations[before:]:
            if o.kind in ('bounds', 'invariant', 'nul') and rule is not None:
                n += 1
                chk.check(o.held, rule, f.name, '%s [%s]' % (o.what, tag), o.where, o.detail)
            elif o.kind == 'split' and split_rule is not None:
                n += 1
                chk.check(o.held, split_rule, f.name, '%s [%s]' % (o.what, tag), o.where, o.detail)
        return n

    def split_exit(f, s, tag):
        """'--key=value': after the step that found the '=', the cursor stands on the first character behind it (in
        the same word): that is where the value element of the next step starts"""
        if split_rule is None:
            return 0
        n = 0
        for g in s.ghost:
            if g[0] != 'cfind' or g[3] != ord('='):
                continue
            nv = s.fields.get(('this', 'mNextIsValue'))
            if not (isinstance(nv, Lin) and entails(s.cons, ge(nv, 1))):
                continue
            src = s.fields.get((g[2], 'source'))
            pos = s.fields.get(('this', 'mArgCharPos'))
            idx = s.fields.get(('this', 'mArgIndex'))
            ok = isinstance(src, Ptr) and isinstance(pos, Lin) and isinstance(idx, Lin) and \
                src.region == 'argv[%r]' % (idx,) and all(entails(s.cons, c) for c in eq(pos, src.off + g[4] + 1))
            n += 1
            chk.check(ok, split_rule, f.name, "the value of '--key=value' starts at the character right behind the "
                      "'=' that was found [%s]" % tag, f.loc(), '' if ok else
                      "searched text starts at %r, '=' found at offset %r of it, cursor afterwards %r; path [%s]" % (
                          src, g[4], pos, '; '.join(s.trail[-6:])))
        return n

    def exit_case(f, s, tag):
        c = which_case(eng, s)
        if rule is None:
            return c
        chk.check(c is not None, rule, f.name, 'the cursor is in one of the four invariant cases at exit [%s]' % tag,
                  f.loc(), '' if c is not None else 'index %r, position %r, pending value %r, argc %r on the path [%s]' % (
                      s.fields.get(('this', 'mArgIndex')), s.fields.get(('this', 'mArgCharPos')),
                      s.fields.get(('this', 'mNextIsValue')), s.fields.get(('this', 'mArgC')), '; '.join(s.trail[-8:])))
        return c

    total = 0
    # ---- constructor( source, asEnd)
    ctor = [f for f in by['ArgListIterator'] if f.d.get('ctor') and not f.d.get('defaulted') and len(f.params) == 2]
    chk.require(len(ctor) == 1, 'ArgListIterator( const T&, bool) not found')
    f = ctor[0]
    for as_end in (0, 1):
        eng.root = f.name
        eng.root_short = 'ctor'
        st = St()
        argc = eng.named('argc', st, 'int')
        st.assume(ge(argc, 1))
        st.fields[('ghost', 'argc')] = argc
        st.regions['argv'] = argc + 1
        src = f.params[0]['name']
        st.vars[src] = Obj('src', 'celma::prog_args::detail::ArgListParser')
        st.fields[('src', 'mArgCount')] = argc
        st.fields[('src', 'mpArgV')] = Ptr('argv', 0)
        st.vars[f.params[1]['name']] = lin(as_end)
        # in-class initialisers
        for k, v, t in (('mArgIndex', lin(-1), 'int'), ('mArgCharPos', lin((1 << 64) - 1), 'unsigned long'),
                        ('mCurrArgStringLen', lin(0), 'unsigned long'), ('mAcceptDashedValue', lin(0), 'bool'),
                        ('mNextIsValue', lin(0), 'bool'), ('mRemainingArgumentStringAsValue', lin(0), 'bool')):
            st.fields[('this', k)] = v
            st.ftypes[('this', k)] = t
        tag = '%s( source, asEnd = %s)' % (tagc, bool(as_end))
        before = len(eng.obligations)
        finals = eng.run_ctor(f, st, [st.vars[src], lin(as_end)])
        total += report(f, before, tag)
        for s in finals:
            if s.status in ('normal', 'return'):
                exit_case(f, s, tag)
                total += 1
    # ---- operator++ / postfix / helpers from each case
    for key, case, ecase in [(k, c, None) for k in ('operator++', 'operator++/postfix') for c in CASES] + \
            [(k, c, e) for k in ('argsAsString', 'isSingleArg') for c in ('A', 'B', 'C')
             for e in ('single character', 'other')]:
        f = by[key][0]
        if True:
            tag = '%s::%s from case %s' % (tagc, key, case) + ((', element: %s' % ecase) if ecase else '')
            before = len(eng.obligations)
            dead = []

            def setup(e, st, func, case=case, dead=dead, ecase=ecase):
                if not enter(e, st, case):
                    dead.append(1)
                if ecase is not None:
                    # the current element was stored by one of the setters (their obligations above): it refers
                    # to a word of argv; a single-character argument lies inside that word.  (Both members are
                    # only used on an iterator that differs from end().)
                    ci = e.named('this.mCurrElement.mArgIndex', st, 'int')
                    argc = st.fields[('ghost', 'argc')]
                    st.assume(ge(ci, 1), le(ci, argc - 1))
                    st.fields[('this', 'mCurrElement')] = Obj('this.mCurrElement',
                                                              'celma::prog_args::detail::ArgListElement')
                    st.fields[('this.mCurrElement', 'mArgIndex')] = ci
                    et = e.named('this.mCurrElement.mElementType', st, 'int')
                    st.fields[('this.mCurrElement', 'mElementType')] = et
                    cp = e.named('this.mCurrElement.mArgCharPos', st, 'int')
                    st.fields[('this.mCurrElement', 'mArgCharPos')] = cp
                    if ecase == 'single character':
                        _, w = word(e, st, ci)
                        st.assume(eq(et, 0), ge(cp, 1), le(cp, w - 1))
                    else:
                        st.assume(ge(et, 1), le(et, 4))
                    if not st.ok():
                        dead.append(1)
            eng.root_short = f.short
            finals = eng.analyse(f, setup)
            if dead:
                del eng.obligations[before:]
                continue
            total += report(f, before, tag)
            if key.startswith('operator++'):
                for s in finals:
                    if s.status in ('normal', 'return'):
                        exit_case(f, s, tag)
                        total += 1
                        total += split_exit(f, s, tag)
                        if progress_rule is not None and case != 'E' and key == 'operator++':
                            # every step moves the cursor forward (word index, then character position): the loop
                            # over the elements of an argument vector ends after finitely many steps
                            i0, p0 = Lin.sym('this.mArgIndex'), Lin.sym('this.mArgCharPos')
                            i1, p1 = s.fields.get(('this', 'mArgIndex')), s.fields.get(('this', 'mArgCharPos'))
                            ok = isinstance(i1, Lin) and isinstance(p1, Lin) and (
                                entails(s.cons, ge(i1, i0 + 1)) or
                                (all(entails(s.cons, c_) for c_ in eq(i1, i0)) and entails(s.cons, ge(p1, p0 + 1))))
                            total += 1
                            chk.check(ok, progress_rule, f.name, 'every step of the iterator moves the cursor forward '
                                      '(termination of the element loop) [%s]' % tag, f.loc(),
                                      '' if ok else 'cursor before (%r, %r), after (%r, %r); path [%s]' % (
                                          i0, p0, i1, p1, '; '.join(s.trail[-6:])))
    chk.samples.append({'R6_cursor_obligations': total})
    if eng.unsupported:
        chk.notes.append('cursor analysis, constructs evaluated as opaque: %s' % sorted(set(eng.unsupported))[:12])
    return total
