"""C17-R3: width clause of the text block, by Engine C with a ghost 'characters on the current
output line' counter.  Root: TextBlock::format with formatLine inlined.

 * model of  os << x : std::endl resets the ghost to 0, strings add their length
 * loop invariant of the word loop (assumed at the head, proved on entry and after every iteration):
       ghost <= currLength          (the tracked length never under-estimates the line)
       currLength <= 2^63           (so that currLength + word + 1 cannot wrap)
 * obligation after every word that is written: the line is at most mLength characters long, or it
   consists of the indentation (plus the 2 list-continuation blanks) and this single word"""
from ..bounds import Engine, Ptr, Obj, Obligation, UNKNOWN, _ev_all
from ..lin import Lin, lin, ge, le, lt, gt, eq, entails
from ..facts import children, strip_all_casts, walk

GHOST = ('ghost', 'linelen')
SEP = ('ghost', 'wordend')       # 1: the last thing streamed onto the current line was a word of the text


def m_stream(eng, n, st, func, want):
    if n.get('k') != 'CXXOperatorCallExpr' or n.get('op') != '<<' or 'ostream' not in (n.get('t') or ''):
        return None
    kids = children(n)
    lhs, rhs = kids[1], kids[2]
    out = []
    for lv, s0 in eng.ev(lhs, st, func):
        r0 = strip_all_casts(rhs)
        if r0.get('k') == 'DeclRefExpr' and r0['ref'].get('q') == 'std::endl':
            s0.fields[GHOST] = lin(0)
            s0.fields[SEP] = lin(0)
            out.append((lv, s0))
            continue
        for v, s1 in eng.ev(rhs, s0, func):
            is_word = isinstance(v, Obj) and v.name.startswith('tiWord')
            sep = s1.fields.get(SEP)
            if is_word:
                # words of the text are never glued together: since the previous word of this line a blank (or the
                # line break + indentation) was streamed
                wl_ = eng.string_len(s1, v.name)
                s1.assume(ge(wl_, 1))                # the tokenizer yields no empty words
                held = isinstance(sep, Lin) and entails(s1.cons, le(sep, 0))
                eng.obligations.append(Obligation(
                    eng.root, 'separator', 'a word is separated from the previous word of its line (blank or line break)',
                    held, func.loc(n), '' if held else 'the previous output on this line may be a word; path [%s]' % (
                        '; '.join(s1.trail[-8:]))))
                s1.fields[SEP] = lin(1)
            else:
                s1.fields[SEP] = lin(0)
            g = s1.fields.get(GHOST)
            add = None
            if isinstance(v, Obj):
                add = eng.string_len(s1, v.name)
            elif isinstance(v, Ptr):
                add = s1.fields.get((v.region, 'strlen'))
            elif isinstance(v, Lin):
                add = lin(1)          # a single character
            if g is None or add is None:
                s1.fields[GHOST] = eng.fresh('linelen', s1, 'unsigned long')
            else:
                s1.fields[GHOST] = g + add
                if isinstance(v, Obj) and v.name.startswith('tiWord'):
                    width_obligation(eng, s1, func, n, v)
            out.append((lv, s1))
    return out


def width_obligation(eng, st, func, node, word):
    g = st.fields[GHOST]
    ml = eng.load(('field', 'this', 'mLength'), st, node, func, 'int')
    ind = eng.string_len(st, 'this.mIndentSpaces')
    wl = eng.string_len(st, word.name)
    fits = entails(st.cons, le(g, ml))
    single = any(entails(st.cons, ge(g, ind + wl + k)) and entails(st.cons, le(g, ind + wl + k)) for k in (0, 2)) or \
        entails(st.cons, le(g, ind + wl + 2)) and entails(st.cons, ge(g, wl))
    held = fits or single
    eng.obligations.append(Obligation(
        eng.root, 'width', 'after writing a word the line is within the width, or holds this single word only',
        held, func.loc(node), '' if held else
        'line length %r, width %r, indentation %r, word length %r on the path [%s]' % (
            g, ml, ind, wl, '; '.join(st.trail[-8:]))))


def invariants(eng, st, func, obj='this'):
    ml = eng.load(('field', obj, 'mLength'), st, None, func, 'int')
    ind = eng.string_len(st, obj + '.mIndentSpaces')
    # assumptions about the configuration (never modified): a positive width and an int-sized indentation
    return [('configuration: mLength >= 1, indentation < 2^31', [ge(ml, 1), le(ind, (1 << 31) - 1)], None)]


def loop_invariants(eng, st, func, loop):
    if func.short == 'format':
        fp = st.fields.get(('local.firstLine', 'mFirstPass'))
        if isinstance(fp, Lin):
            return [('the first-pass flag is cleared once the first input line was handled', eq(fp, 0))]
        return []
    if func.short != 'formatLine':
        return []
    cur = st.vars.get('currLength')
    g = st.fields.get(GHOST)
    if not isinstance(cur, Lin) or g is None:
        return []
    inv = [('tracked length covers the characters on the line (ghost <= currLength)', [le(g, cur)]),
           ('currLength <= 2^63', [le(cur, 1 << 63), ge(cur, 0)])]
    sep = st.fields.get(SEP)
    if isinstance(sep, Lin):
        ind = eng.string_len(st, 'this.mIndentSpaces')
        inv.append(('a line that ends in a word is longer than the indentation (so the "first word of the line" test '
                    'sees it)', [ge(sep, 0), le(sep, 1), le(sep, cur - ind)]))
    return inv


def loop_havoc(eng, st, func, loop):
    # the ghost is modified inside the loops (through the stream model): havoc it at every loop head
    st.fields[GHOST] = eng.fresh('linelen', st, 'unsigned long')
    sp = eng.fresh('wordend', st, 'unsigned long')
    st.assume(le(sp, 1))
    st.fields[SEP] = sp


def run(chk, prog):
    chk.rule('R3', 'width: a line exceeds the width only if it holds a single word (Engine C with ghost line length)', 4)
    chk.rule('R5', 'no two words are merged: every word is separated from the previous word of its line', 3)
    f = prog.one('celma::format::TextBlock', 'format')
    # the arithmetic below measures the indentation as the length of the blank string member that is streamed
    ctors = [g for g in prog.functions if g.classq == 'celma::format::TextBlock' and g.short == 'TextBlock' and g.inits]
    chk.require(any(i.get('name') == 'mIndentSpaces' for g in ctors for i in g.inits),
                'width rule: the indentation is no longer kept as the blank string member mIndentSpaces')
    cfg = {'invariants': invariants, 'loop_invariants': loop_invariants, 'loop_havoc': loop_havoc,
           'inline': ('celma::format::TextBlock::', 'celma::common::FirstPass::'), 'peel_loops': True,
           'models': {'std::operator<<': m_stream, 'operator<<': m_stream,
                      'std::basic_ostream<char>::operator<<': m_stream,
                      'std::basic_ostream<char, std::char_traits<char>>::operator<<': m_stream}}
    eng = Engine(prog, cfg)

    def setup(e, st, func):
        st.fields[GHOST] = lin(0)       # format() starts on a fresh line
        st.fields[SEP] = lin(0)
        st.fields[('this.mIndentSpaces', 'length')] = e.string_len(st, 'this.mIndentSpaces')
    eng.analyse(f, setup)
    for o in eng.obligations:
        if o.kind in ('width', 'invariant', 'wrap'):
            chk.check(o.held, 'R3', f.name, o.what, o.where, o.detail)
        elif o.kind == 'separator':
            chk.check(o.held, 'R5', f.name, o.what, o.where, o.detail)
    if eng.unsupported:
        chk.notes.append('C17-R3 opaque constructs: %s' % sorted(set(eng.unsupported))[:8])
