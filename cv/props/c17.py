"""C17 — Text-block formatting preserves the words and respects indentation and width.

R1 exactly-once emission: on every path through one iteration of the word loop of
   TextBlock::formatLine the current token is streamed exactly once - except on the "nn" path
   (zero times); tokens are consumed in iteration order
R2 indentation: every line break written by format()/formatLine() is followed by the
   indentation; the first-line indentation is guarded by mIndentFirst; explicit newlines of the
   input start a new line (outer tokenizer on '\\n', inner on ' ')
R3 width: in the 'fits' branch the line length stays <= mLength (linear reasoning over the branch
   conditions); in the wrap branch the new line holds a single word
Not decided: exact placement of blanks, words containing tabs."""
from .. import rules
from ..rules import (callee_is, object_of, field_name, call_args, mentions_field, mentions_call,
                     mentions_var, loops_in, loop_header)
from ..facts import load_program, units_matching, children, strip_all_casts, strip_casts, walk, CALL_KINDS, \
    AnalysisBroken


def stream_ops(f):
    """all `x << rhs` calls on std::ostream in f: list of (call, rhs node)"""
    res = []
    for c in f.calls():
        if c.get('k') == 'CXXOperatorCallExpr' and c.get('op') == '<<' and 'ostream' in (c.get('t') or ''):
            a = call_args(c)
            if len(a) == 2:
                res.append((c, a[1]))
    return res


def is_endl(n):
    n = strip_all_casts(n)
    return n.get('k') == 'DeclRefExpr' and n['ref'].get('q') == 'std::endl'


def path_counts(cfg, start_block, stop_block, weight):
    """set of total weights over all acyclic block paths from start_block to stop_block;
    weight(block) -> int; returns None if a cycle is met"""
    memo = {}
    onstack = set()

    def go(b):
        if b == stop_block:
            return {0}
        if b in memo:
            return memo[b]
        if b in onstack:
            return None
        onstack.add(b)
        res = set()
        succs = cfg.succs(b)
        if not succs:
            res = set()      # leaves the function (throw/return): not an iteration path
        for s in succs:
            r = go(s)
            if r is None:
                onstack.discard(b)
                return None
            res |= {x + weight(b) for x in r}
        onstack.discard(b)
        memo[b] = res
        return res
    return go(start_block)


def r1(chk, prog):
    f = prog.one('celma::format::TextBlock', 'formatLine')
    cfg = f.cfg
    loops = loops_in(f)
    chk.require(len(loops) == 1 and loops[0].get('k') == 'CXXForRangeStmt', 'formatLine: word loop not found')
    loop = loops[0]
    lv = children(loop)[1]
    tok = lv['decls'][0]['name']
    rng = children(loop)[0]
    chk.check('celma::common::Tokenizer' in (strip_all_casts(rng).get('t') or ''), 'R1', f.name,
              'words are taken from the tokenizer in iteration order', f.loc(loop))
    emits = {c['id'] for c, rhs in stream_ops(f) if strip_all_casts(rhs).get('k') == 'DeclRefExpr'
             and strip_all_casts(rhs)['ref'].get('name') == tok}
    chk.require(emits, 'formatLine never streams the current word')
    h = loop_header(cfg, loop)
    body = cfg.succ[h][0]

    def weight(b):
        return sum(1 for e in cfg.elems(b) if isinstance(e, int) and e in emits)
    # the forced-break token: edge taken when the word IS the token.  Recognised tests: word == text / text == word /
    # word.compare( text) == 0 (exact); a sub-range or prefix comparison (compare( pos, n, text), find/rfind,
    # starts_with) is recognised as the test, but matches more than the token
    def const_text(n):
        for x in walk(n):
            if x.get('k') == 'StringLiteral':
                return x.get('val')
            if x.get('k') == 'DeclRefExpr' and x['ref'].get('sto') not in ('local', 'param') and \
                    'char' in (x['ref'].get('dt') or '') and 'const' in (x['ref'].get('dt') or ''):
                return '<%s>' % x['ref'].get('name')
        return None

    def forced_break_test(cond):
        """(exact?, edge index on which the word is the token) or None"""
        c0 = strip_all_casts(cond) if cond else None
        neg = False
        while c0 is not None and c0.get('k') == 'UnaryOperator' and c0.get('op') == '!':
            neg = not neg
            c0 = strip_all_casts(children(c0)[0])
        if not c0 or not mentions_var(c0, tok):
            return None
        txt = const_text(c0)
        if txt is None or (not txt.startswith('<') and txt != 'nn'):
            return None
        if c0.get('k') in CALL_KINDS and c0.get('op') in ('==', '!='):
            return True, 0 if ((c0.get('op') == '==') != neg) else 1
        if c0.get('k') == 'BinaryOperator' and c0.get('op') in ('==', '!='):
            a, b = (strip_all_casts(x) for x in children(c0))
            if a.get('k') == 'IntegerLiteral':
                a, b = b, a
            if a.get('k') == 'CXXMemberCallExpr' and b.get('k') == 'IntegerLiteral':
                short = (a.get('callee') or '').split('::')[-1]
                edge = 0 if ((c0.get('op') == '==') != neg) else 1
                if short == 'compare' and b.get('val') == 0:
                    return len(call_args(a)) == 1, edge
                if short in ('find', 'rfind') and b.get('val') == 0:
                    return False, edge
        if c0.get('k') == 'CXXMemberCallExpr' and (c0.get('callee') or '').split('::')[-1] in ('starts_with', 'ends_with'):
            return False, 1 if neg else 0
        return None
    nn_edges = []
    for bid, cond in cfg.cond_blocks():
        t = forced_break_test(cond)
        if t is not None:
            exact, edge = t
            nn_edges.append((bid, cfg.succ[bid][edge], cfg.succ[bid][1 - edge]))
            chk.check(exact, 'R1', f.name, 'the forced-break test compares the whole word with the token', f.loc(cond),
                      'a prefix / sub-range comparison also consumes every other word that starts like the token')
    chk.require(len(nn_edges) == 1, 'formatLine: test for the "nn" token not found')
    nb, nn_true, nn_false = nn_edges[0]

    def iteration_paths(b, took, onstack):
        """set of (number of times the word is written, the "nn" edge was taken) over the acyclic block paths of
        one iteration starting at block b; None if a cycle that does not pass the loop header is met"""
        if b == h:
            return {(0, took)}
        if b in onstack:
            return None
        res = set()
        for s_ in cfg.succs(b):
            r = iteration_paths(s_, took or (b == nb and s_ == nn_true), onstack | {b})
            if r is None:
                return None
            res |= {(w + weight(b), t) for w, t in r}
        return res
    paths = iteration_paths(body, False, frozenset())
    chk.require(paths is not None, 'word loop body is not acyclic')
    normal = {w for w, t in paths if not t}
    forced = {w for w, t in paths if t}
    chk.check(normal == {1}, 'R1', f.name, 'every word is written exactly once per iteration', f.loc(loop),
              'emission counts over the paths of one iteration that do not take the "nn" branch: %s' % sorted(normal))
    chk.check(forced == {0}, 'R1', f.name, 'the "nn" token is consumed, not written', f.loc(loop),
              'emission counts on the "nn" path: %s' % sorted(forced))
    # the word is written only after the "nn" test said no: no emission is reachable inside an iteration without
    # taking the false edge of that test
    seen = cfg.reach((body, 0), lambda pos, e: pos[0] == h, blocked_edges={(nb, nn_false)})
    unguarded = [e for b in {p[0] for p in seen if p[0] != 'exit_from'} for e in cfg.elems(b)
                 if isinstance(e, int) and e in emits and (b, cfg.elems(b).index(e)) in seen]
    chk.check(not unguarded, 'R1', f.name, 'a word is written only after it was compared with the "nn" token (the token '
              'itself is never written)', f.loc(loop), '%d emission(s) reachable without the test' % len(unguarded))
    # no buffering / reordering constructs: the token is only streamed, compared or measured
    uses = set()
    for n in f.walk():
        if n.get('k') == 'DeclRefExpr' and n['ref'].get('name') == tok:
            p = f.parent(n)
            while p is not None and p.get('k') in ('ImplicitCastExpr', 'MemberExpr'):
                p = f.parent(p)
            uses.add((p.get('k'), p.get('op') or p.get('callee', '').split('::')[-1]))
    allowed = {('CXXOperatorCallExpr', '<<'), ('CXXOperatorCallExpr', '=='), ('CXXOperatorCallExpr', '[]'),
               ('CXXMemberCallExpr', 'length'), ('CXXMemberCallExpr', 'size'), ('CXXMemberCallExpr', 'empty'),
               ('CXXMemberCallExpr', 'compare'), ('CXXMemberCallExpr', 'find'), ('CXXMemberCallExpr', 'rfind'),
               ('CXXMemberCallExpr', 'starts_with'), ('CXXMemberCallExpr', 'front'), ('CXXMemberCallExpr', 'at'),
               ('DeclStmt', None)}
    extra = {u for u in uses if u not in allowed and u[0] != 'DeclStmt'}
    chk.check(not extra, 'R1', f.name, 'words are not stored, split or reordered', f.loc(), 'other uses: %s' % extra)
    # no early exit from the word loop
    seen = cfg.reach((body, 0), lambda pos, e: pos[0] == h)
    chk.check(not any(p[0] == 'exit_from' for p in seen), 'R1', f.name, 'no word is dropped by leaving the loop early',
              f.loc(loop))


MANIPULATORS = ('setw', 'setfill', 'left', 'right', 'internal', 'setprecision', 'dec', 'hex', 'oct', 'fixed',
                'boolalpha', 'noboolalpha', 'showbase', 'noshowbase', 'skipws', 'noskipws', 'resetiosflags',
                'setiosflags', 'flush')
CLS = 'celma::format::TextBlock'


def _plain(q):
    out, depth = [], 0
    for ch in q or '':
        if ch == '<':
            depth += 1
        elif ch == '>':
            depth -= 1
        elif depth == 0:
            out.append(ch)
    return ''.join(out).split('::')[-1]


def manipulator_of(rhs):
    """name of the std manipulator that is streamed, or None"""
    r = strip_all_casts(rhs)
    if r.get('k') in CALL_KINDS and _plain(r.get('callee')) in MANIPULATORS and (r.get('callee') or '').startswith('std::'):
        return _plain(r.get('callee'))
    if r.get('k') == 'DeclRefExpr' and (r['ref'].get('q') or '').startswith('std::') and \
            _plain(r['ref'].get('q')) in MANIPULATORS:
        return _plain(r['ref'].get('q'))
    return None


class IndentModel:
    """How the text block writes its indentation, read from the source on every run:
     * blank-string members: std::string members of TextBlock that every constructor builds as string( count, fill)
     * an 'indent write' in a function is  os << <blank-string member>,  os << setw( n) << ""  (padding of an empty
       string), or a call of a TextBlock helper all of whose output is one indent write on every path"""

    def __init__(self, chk, prog):
        self.prog = prog
        self.blank = {}          # member name -> fill character code
        ctors = [f for f in prog.functions if f.classq == CLS and f.short == 'TextBlock' and f.inits]
        chk.require(ctors, 'constructor of TextBlock not found')
        for f in ctors:
            for i in f.inits:
                e = i.get('init')
                if not isinstance(e, dict):
                    continue
                e0 = strip_all_casts(e)
                if e0.get('k') == 'CXXConstructExpr' and 'basic_string' in (e0.get('callee') or '') and \
                        len(children(e0)) >= 2 and strip_all_casts(children(e0)[1]).get('k') == 'CharacterLiteral':
                    name = i.get('field') or i.get('name') or (i.get('ref') or {}).get('name')
                    self.blank[name] = strip_all_casts(children(e0)[1]).get('val')
        self._helper = {}

    def events(self, f):
        """output events of f in no particular order: (node, kind, detail); kind in 'endl', 'indent', 'pad', 'helper',
        'other'"""
        res = []
        for c, rhs in stream_ops(f):
            if is_endl(rhs):
                res.append((c, 'endl', None))
                continue
            if manipulator_of(rhs):
                continue
            fn = field_name(rhs)
            if fn in self.blank:
                res.append((c, 'indent', fn))
                continue
            r0 = strip_all_casts(rhs)
            if r0.get('k') == 'StringLiteral' and r0.get('val') == '':
                # an empty string: writes exactly the padding requested by a preceding setw() of the same chain
                manips = []
                lhs = strip_all_casts(call_args(c)[0])
                while lhs.get('k') == 'CXXOperatorCallExpr' and lhs.get('op') == '<<':
                    m = manipulator_of(call_args(lhs)[1])
                    if m is None:
                        break
                    manips.append((m, strip_all_casts(call_args(lhs)[1])))
                    lhs = strip_all_casts(call_args(lhs)[0])
                if any(m == 'setw' for m, _ in manips):
                    fill = [strip_all_casts(call_args(n)[0]).get('val') for m, n in manips if m == 'setfill']
                    res.append((c, 'pad', fill))
                    continue
            res.append((c, 'other', None))
        for c in f.calls():
            q = c.get('callee') or ''
            if c.get('k') == 'CXXMemberCallExpr' and q.startswith(CLS + '::') and \
                    any('ostream' in (a.get('t') or '') for a in call_args(c)):
                g = self.prog.by_name.get(q)
                g = g[0] if isinstance(g, list) and g else g
                res.append((c, 'helper', g))
        return res

    def helper_is_indent(self, g, depth=0):
        """the helper writes the indentation, once, on every path, and nothing else; returns (bool, [pad events])"""
        if g is None or g.body is None or depth > 3:
            return False, []
        if g.key in self._helper:
            return self._helper[g.key]
        ev = self.events(g)
        pads, ok = [], bool(ev)
        ids = set()
        for c, kind, d in ev:
            if kind == 'indent':
                ids.add(c['id'])
            elif kind == 'pad':
                ids.add(c['id'])
                pads.append((g, c, d))
            elif kind == 'helper':
                sub, sp = self.helper_is_indent(d, depth + 1)
                ok = ok and sub
                pads += sp
                ids.add(c['id'])
            else:
                ok = False
        if ok:
            cfg = g.cfg
            counts = path_counts(cfg, cfg.entry, cfg.exit, lambda b: sum(
                1 for e in cfg.elems(b) if isinstance(e, int) and e in ids))
            ok = counts == {1}
        self._helper[g.key] = (ok, pads)
        return ok, pads


def r2(chk, prog):
    model = IndentModel(chk, prog)
    pads = []
    indent_nodes = {}
    after_endl = set()
    for short in ('format', 'formatLine'):
        f = prog.one(CLS, short)
        cfg = f.cfg
        ev = model.events(f)
        is_indent = {}
        for c, kind, d in ev:
            if kind == 'indent':
                is_indent[c['id']] = True
            elif kind == 'pad':
                is_indent[c['id']] = True
                pads.append((f, c, d))
            elif kind == 'helper' and d is not None and d.short not in ('format', 'formatLine'):
                okh, ps = model.helper_is_indent(d)
                is_indent[c['id']] = okh
                if okh:
                    pads += ps
            else:
                is_indent[c['id']] = False
        indent_nodes[short] = [c for c, kind, d in ev if is_indent.get(c['id'])]
        evpos = {cfg.position(c): c for c, kind, d in ev}
        for c, kind, d in ev:
            if kind != 'endl':
                continue
            b, i = cfg.position(c)
            seen = cfg.reach((b, i + 1), lambda pos, e: pos in evpos)
            nxt = [evpos[p] for p in seen if p in evpos]
            left = any(p[0] == 'exit_from' for p in seen)
            ok = bool(nxt) and not left and all(is_indent.get(n['id']) for n in nxt)
            after_endl |= {n['id'] for n in nxt}
            chk.check(ok, 'R2', f.name, 'every line break is followed by the indentation', f.loc(c),
                      'leaves the function right after the line break' if left else
                      'next output: line(s) %s' % sorted({n.get('l') for n in nxt if not is_indent.get(n['id'])}))
    # the indentation consists of blanks, whatever the state of the stream it is written to
    chk.require(model.blank or pads, 'how the indentation is written was not recognised (blank string member or padding)')
    for name, fill in sorted(model.blank.items()):
        used = any(field_name(call_args(c)[1]) == name for short in indent_nodes for c in indent_nodes[short]
                   if c.get('k') == 'CXXOperatorCallExpr')
        if used or not pads:
            chk.check(fill == 32, 'R2', CLS, 'the indentation consists of blanks', '', 'member %s is filled with %r' % (
                name, chr(fill) if isinstance(fill, int) else fill))
    for g, c, fill in pads:
        chk.check(fill == [32], 'R2', g.name, 'the indentation consists of blanks whatever the state of the stream '
                  '(fill character)', g.loc(c), 'padding of an empty string is written with the fill character of the '
                  'caller\'s stream; no std::setfill( \' \') in the expression')
    f = prog.one(CLS, 'format')
    cfg = f.cfg
    firsts = [c for c in indent_nodes['format'] if c['id'] not in after_endl]
    chk.require(len(firsts) == 1, 'format(): first-line indentation not found')
    pos = cfg.position(firsts[0])
    ok = any(cond is not None and mentions_field(cond, 'mIndentFirst') and cfg.guarded_by_edge(pos, bid, 0)
             for bid, cond in cfg.cond_blocks())
    chk.check(ok, 'R2', f.name, 'the first line is indented only when requested', f.loc(firsts[0]))
    # every paragraph goes through formatLine
    loops = loops_in(f)
    chk.require(loops, 'format(): paragraph loop not found')
    from ..rules import loop_iteration_must_pass
    off = loop_iteration_must_pass(cfg, loops[0], lambda x: x.get('k') in CALL_KINDS and
                                   callee_is(x, 'TextBlock::formatLine'))
    chk.check(not off, 'R2', f.name, 'every input line is formatted', f.loc(), '; '.join(off))
    # tokenizer separators
    for short, ch, what in (('format', 10, 'explicit newlines of the input start a new line'),
                            ('formatLine', 32, 'words are separated at blanks')):
        g = prog.one('celma::format::TextBlock', short)
        seps = []
        for c in g.calls():
            if callee_is(c, 'Tokenizer::Tokenizer'):
                a = call_args(c)
                v = strip_all_casts(a[1]) if len(a) > 1 else {}
                seps.append(v.get('val', v.get('cv')))
        chk.check(seps == [ch], 'R2', g.name, what, g.loc(), 'tokenizer separators %s' % seps)
    # a new paragraph (not the first) starts with a line break
    endl_fmt = [c for c, rhs in stream_ops(f) if is_endl(rhs)]
    chk.check(len(endl_fmt) == 1, 'R2', f.name, 'exactly one line break between two input lines', f.loc())


def r5_configuration_as_given(chk, prog):
    """`the configured width` / `the configured indentation` are the constructor arguments: every scalar member of
    TextBlock that a constructor initialises from its parameters takes ONE parameter unchanged (no clamping,
    enlarging or arithmetic - a widened line length makes lines longer than the caller configured), and no
    constructor body or member function re-assigns such a member."""
    ctors = [f for f in prog.functions if f.classq == CLS and f.short == 'TextBlock' and f.inits]
    chk.require(ctors, 'constructor of TextBlock not found')
    n = 0
    conf = set()
    for f in ctors:
        pnames = {p['name'] for p in f.params}
        if not pnames:
            continue
        for i in f.inits:
            e = i.get('init')
            if i.get('kind') != 'member' or not isinstance(e, dict):
                continue
            refs = [x for x in walk(e) if x.get('k') == 'DeclRefExpr' and x.get('ref', {}).get('name') in pnames]
            if not refs:
                continue
            n += 1
            conf.add(i.get('name'))
            e0 = strip_all_casts(e)
            chk.check(e0.get('k') == 'DeclRefExpr' and e0.get('ref', {}).get('name') in pnames, 'R5', f.name,
                      'member %s takes the constructor argument unchanged' % i.get('name'), f.loc(),
                      'it is computed (%s): the block is formatted with another value than the configured one' % e0.get('k'))
    chk.require(n >= 2, 'TextBlock members initialised from constructor parameters: %d' % n)
    for f in prog.functions:
        if f.classq != CLS or f.body is None:
            continue
        for x in f.walk():
            if x.get('k') in ('BinaryOperator', 'CompoundAssignOperator') and (x.get('op') or '').endswith('=') and \
                    x.get('op') not in ('==', '!=', '<=', '>=') and field_name(children(x)[0]) in conf and \
                    strip_all_casts(children(x)[0]).get('k') == 'MemberExpr' and \
                    children(strip_all_casts(children(x)[0]))[0].get('k') in ('CXXThisExpr', None):
                chk.check(False, 'R5', f.name, 'the configured %s is not changed after construction' % field_name(
                    children(x)[0]), f.loc(x))


def run(chk):
    units = units_matching('library/format/text_block.cpp')
    prog = load_program(units)
    chk.units = units
    chk.explanation = (
        'Path-counting over the CFG of one iteration of the word loop of TextBlock::formatLine (the set of emission '
        'counts of the current token over ALL paths must be {1}, and {0} on the "nn" path), use-analysis of the token '
        '(only streamed, compared, measured), stream-chain shape rule "endl is followed by the indentation", guards '
        'of the first-line indentation, tokenizer separators. Decides: no word lost, duplicated or reordered; every '
        'line starts with the indentation. Not decided: blank placement, tabs; the width clause is decided by the '
        'linear-arithmetic rule R3 in the thorough tier.')
    chk.assumptions = ['common::Tokenizer yields the words of its input in order (trusted: boost::tokenizer)']
    chk.rule('R1', 'every word written exactly once, "nn" consumed, order preserved', 5)
    chk.rule('R2', 'indentation after every line break; first line only when requested', 8)
    r1(chk, prog)
    r2(chk, prog)
    try:
        from . import c17_width
    except ImportError:
        c17_width = None
    if c17_width is not None:
        c17_width.run(chk, prog)
    # R4: the caller that prints argument descriptions without first-line indentation (usage of the argument
    # handler) lays the key column out for exactly the arguments it prints - otherwise the first line of a
    # description starts beyond the block indentation and overruns the line length (rule shared with C18-R5)
    from . import c18
    from .. import rules as _rules
    prog2, units2 = _rules.prog_args_program()
    chk.units = list(chk.units) + [u for u in units2 if u.endswith('argument_desc.cpp')]
    chk.rule('R4', 'usage printing: the key column is laid out for exactly the arguments that are printed', 3)
    c18.r5_visibility_arguments(chk, prog2, rule='R4')
    # ... and wraps the descriptions at the configured line length in every layout branch (shared with C18-R13)
    c18.r13_text_block_width(chk, prog2, rule='R4')
    chk.rule('R5', 'the block is formatted with the configured width and indentation', 3)
    r5_configuration_as_given(chk, prog)
