"""C02 — No command line that breaks a declared rule is silently accepted.

"A rule is enforced" = "every path to a successful return passes the enforcing
call".  Rules R1..R8 of DESIGN §4 C02; all are decided on the CFG / resolved
call graph of the current sources."""
from .. import rules
from ..rules import (callee_is, object_of, field_name, call_args, mentions_field, mentions_call,
                     mentions_var, Wrapper, exempt_edges, loops_in, loop_header,
                     loop_iteration_must_pass, enclosing_loops)
from ..facts import children, strip_all_casts, strip_casts, walk, CALL_KINDS, AnalysisBroken

EXEMPT_ASSIGN = {
    # class (qualified, no template args) or exact class name -> reason
    'celma::prog_args::detail::TypedArg<bool>': 'flag: takes no value, addCheck() refuses checks',
    'celma::prog_args::detail::TypedArg<std::optional<bool>>': 'flag: takes no value',
    'celma::prog_args::detail::TypedArgCallable': 'callable without value',
    'celma::prog_args::detail::TypedArgSubGroup': 'sub-group argument: takes no value',
    'q:celma::prog_args::detail::TypedArgValue': 'stores the value fixed at definition, takes no value',
    'q:celma::prog_args::detail::TypedArgRange': 'addCheck() always throws for range destinations',
    'celma::prog_args::detail::TypedArg<celma::common::ValueFilter<': 'addCheck() always throws for value filters',
}


def usage_atom(func):
    """atoms meaning 'usage was printed': field mUsagePrinted, call usagePrinted(), or a local
    variable that is assigned from an expression containing usagePrinted()"""
    locals_ = set()
    for n in func.walk():
        if n.get('k') in ('BinaryOperator', 'CompoundAssignOperator') and n.get('op') in ('=', '|=', '&='):
            kids = children(n)
            if len(kids) == 2 and mentions_call(kids[1], 'usagePrinted'):
                l = strip_all_casts(kids[0])
                if l.get('k') == 'DeclRefExpr':
                    locals_.add(l['ref']['name'])
        if n.get('k') == 'DeclStmt':
            for d in n.get('decls', []):
                if isinstance(d.get('init'), dict) and mentions_call(d['init'], 'usagePrinted'):
                    locals_.add(d['name'])

    def pred(c):
        if c.get('k') == 'MemberExpr' and c.get('ref', {}).get('name') == 'mUsagePrinted':
            return True
        if c.get('k') in CALL_KINDS and callee_is(c, 'usagePrinted'):
            return True
        if c.get('k') == 'DeclRefExpr' and c.get('ref', {}).get('name') in locals_:
            return True
        return False
    return pred


def end_check_targets():
    """the four end-of-evaluation obligations: name -> predicate(call)"""
    def cmc(field):
        def p(c):
            return callee_is(c, 'ArgumentContainer::checkMandatoryCardinality') and \
                field_name(object_of(c)) == field
        return p
    return {
        'mandatory/cardinality of mArguments': cmc('mArguments'),
        'mandatory/cardinality of mSubGroupArgs': cmc('mSubGroupArgs'),
        'ConstraintContainer::checkRequired': lambda c: callee_is(c, 'ConstraintContainer::checkRequired'),
        'IHandlerConstraint::checkEndCondition for all global constraints':
            lambda c: callee_is(c, 'Handler::checkGlobalConstraints'),
    }


def check_loop_calls_all(chk, rid, prog, fname_cls, fname, field, callee):
    """function iterates over this->field and calls `callee` in every iteration, no early exit"""
    f = prog.one(fname_cls, fname)
    cfg = f.cfg
    ok = False
    detail = 'no loop over %s found' % field
    for loop in loops_in(f):
        hdr_part = [c for c in children(loop)[:-1]]
        if not any(mentions_field(h, field) for h in hdr_part):
            continue
        off = loop_iteration_must_pass(cfg, loop, lambda n: n.get('k') in CALL_KINDS and callee_is(n, callee))
        # the function must reach the loop on every return path
        h = loop_header(cfg, loop)
        skip = cfg.can_reach_exit(cfg.entry_pos(), lambda pos, e: pos[0] == h)
        if not off and not skip:
            ok = True
        else:
            detail = '; '.join(off + (['a return path bypasses the loop'] if skip else []))
    chk.check(ok, rid, f.name, 'calls %s for every element of %s' % (callee, field), f.loc(), detail)
    return f


def r1_end_checks(chk, prog):
    f = prog.one('celma::prog_args::Handler', 'evalArguments')
    cfg = f.cfg
    iters = list(f.calls_to('Handler::iterateArguments'))
    chk.require(len(iters) >= 1, 'Handler::evalArguments does not call iterateArguments')
    # start after the last iterateArguments call in CFG order (the one not followed by another)
    starts = [cfg.position(c) for c in iters]
    last = [p for p in starts if not any(q != p and cfg.reachable_from(p, q) for q in starts)]
    chk.require(len(last) == 1, 'cannot determine the last iterateArguments call')
    start = (last[0][0], last[0][1] + 1)
    ex = exempt_edges(f, usage_atom(f), True)
    for name, pred in end_check_targets().items():
        w = Wrapper(prog, pred)
        bad = cfg.must_pass_through(lambda n: w.node_is(n), start=start, blocked_edges=ex)
        chk.check(not bad, 'R1', f.name, 'end check: ' + name, f.loc(),
                  'a normal-return path after iterateArguments() (usage not printed) skips it')
    check_loop_calls_all(chk, 'R1', prog, 'celma::prog_args::Handler', 'checkGlobalConstraints',
                         'mGlobalConstraints', 'IHandlerConstraint::checkEndCondition')
    # the end check of the container asks EVERY argument for its cardinality verdict: an argument that got some but
    # not all of its values (a partly filled tuple reports hasValue() == false) is refused here and nowhere else
    check_loop_calls_all(chk, 'R1', prog, 'celma::prog_args::detail::ArgumentContainer', 'checkMandatoryCardinality',
                         'mArguments', 'TypedArgBase::checkCardinality')


def r2_identification(chk, prog):
    f = prog.one('celma::prog_args::Handler', 'handleIdentifiedArg')
    cfg = f.cfg
    assigns = list(f.calls_to('TypedArgBase::assignValue'))
    chk.require(assigns, 'handleIdentifiedArg does not call assignValue')
    for tgt, what in (('ConstraintContainer::argumentIdentified', 'argument constraints (requires/excludes)'),
                      ('Handler::executeGlobalConstraints', 'handler constraints')):
        cs = list(f.calls_to(tgt))
        for a in assigns:
            chk.check(any(cfg.node_dominates(c, a) for c in cs), 'R2', f.name,
                      '%s notified before the value is assigned' % what, f.loc(a))
    check_loop_calls_all(chk, 'R2', prog, 'celma::prog_args::Handler', 'executeGlobalConstraints',
                         'mGlobalConstraints', 'IHandlerConstraint::executeConstraint')
    # who may call assignValue inside the handler
    for g in prog.functions:
        if g.classq not in ('celma::prog_args::Handler', 'celma::prog_args::Groups',
                            'celma::prog_args::ValueHandler'):
            continue
        for c in g.calls_to('TypedArgBase::assignValue'):
            if g.short == 'handleIdentifiedArg':
                continue
            # confirmed exception: continuation of a multi-value argument
            gcfg = g.cfg
            pos = gcfg.position(c)
            guarded = False
            for bid, cond in gcfg.cond_blocks():
                if cond is not None and mentions_call(cond, 'takesMultiValue') and \
                        gcfg.guarded_by_edge(pos, bid, 0):
                    guarded = True
            chk.check(guarded, 'R2', g.name,
                      'assignValue outside handleIdentifiedArg only for multi-value continuation', g.loc(c))
    # every use of an identified argument in processArg/evalSingleArgument goes via handleIdentifiedArg:
    # a path that returns 'consumed'/'last' after findArg() found something passes through
    # handleIdentifiedArg (or the multi-value assignValue)
    for short in ('processArg',):
        g = prog.one('celma::prog_args::Handler', short)
        gcfg = g.cfg
        w = Wrapper(prog, lambda c: callee_is(c, 'Handler::handleIdentifiedArg'))
        # blocked edges: returns of ArgResult::unknown are fine -> find return statements returning unknown
        unknown_rets = set()
        for n in g.walk():
            if n.get('k') == 'ReturnStmt' and any(
                    x.get('k') == 'DeclRefExpr' and x.get('ref', {}).get('q', '').endswith('ArgResult::unknown')
                    for x in walk(n)):
                unknown_rets.add(n['id'])

        def blocked(pos, e, w=w, g=g, unknown_rets=unknown_rets):
            if not isinstance(e, int):
                return False
            if e in unknown_rets:
                return True
            n = g.node(e)
            return n is not None and w.node_is(n)
        bad = gcfg.can_reach_exit(gcfg.entry_pos(), blocked)
        chk.check(not bad, 'R2', g.name,
                  'every path returning consumed/last passes handleIdentifiedArg', g.loc())


def r3_canonical_key(chk, prog):
    f = prog.one('celma::prog_args::Handler', 'handleIdentifiedArg')
    hdl_param = f.params[0]['name'] if f.params else None
    for tgt in ('ConstraintContainer::argumentIdentified', 'Handler::executeGlobalConstraints'):
        for c in f.calls_to(tgt):
            arg = call_args(c)[0]
            # the key must be derived from the identified argument object: hdl->key()
            good = any(x.get('k') in CALL_KINDS and callee_is(x, 'TypedArgBase::key') and
                       mentions_var(x, hdl_param) for x in walk(arg))
            if not good:
                # followed through a local reference/copy initialised from hdl->key()
                a = strip_all_casts(arg)
                if a.get('k') == 'DeclRefExpr' and a['ref'].get('sto') == 'local':
                    for n in f.walk():
                        if n.get('k') == 'DeclStmt':
                            for d in n['decls']:
                                if d['name'] == a['ref']['name'] and isinstance(d.get('init'), dict) and \
                                        mentions_call(d['init'], 'TypedArgBase::key') and \
                                        mentions_var(d['init'], hdl_param):
                                    good = True
            chk.check(good, 'R3', f.name,
                      '%s receives the identified argument\'s own key' % tgt.split('::')[-1], f.loc(c),
                      'the raw command-line key (possibly only one of short/long, or an abbreviation) is '
                      'passed; a constraint naming the other key form is missed')


def r3_canonical_constraint_lists(chk, prog, rule='R3'):
    """... and the other side of the match: the argument list of a handler constraint (all_of / any_of / one_of) is
    stored with the COMPLETE key of every argument it names - Handler::validArguments() rebuilds the list from the
    key of the argument object the lookup found, not from the text that was given (which may be one key form only, or
    an abbreviation: the constraint would never recognise the argument when it is used)"""
    f = prog.one('celma::prog_args::Handler', 'validArguments')
    found = set()          # locals holding the argument object of the lookup
    for x in f.walk():
        for d in (x.get('decls', []) if x.get('k') == 'DeclStmt' else []):
            if isinstance(d.get('init'), dict) and any(c.get('k') in CALL_KINDS and callee_is(c, 'findArg')
                                                      for c in walk(d['init'])):
                found.add(d['name'])
    chk.require(found, 'validArguments: lookup of the listed argument not found')

    def from_found_key(e, depth=0):
        if any(c.get('k') in CALL_KINDS and callee_is(c, 'TypedArgBase::key') and any(
                mentions_var(c, v) for v in found) for c in walk(e)):
            return True
        e0 = strip_all_casts(e)
        if e0.get('k') == 'DeclRefExpr' and e0['ref'].get('sto') == 'local' and depth < 2:
            for x in f.walk():
                for d in (x.get('decls', []) if x.get('k') == 'DeclStmt' else []):
                    if d.get('did') == e0['ref'].get('did') and isinstance(d.get('init'), dict):
                        return from_found_key(d['init'], depth + 1)
        return False
    target = None
    for x in f.walk():
        if x.get('k') == 'CXXOperatorCallExpr' and x.get('op') == '=' and call_args(x) and \
                strip_all_casts(call_args(x)[0]).get('ref', {}).get('sto') == 'param':
            r = strip_all_casts(call_args(x)[1])
            if r.get('k') == 'DeclRefExpr':
                target = r['ref'].get('name')
    chk.require(target is not None, 'validArguments: the rebuilt list is not assigned to the parameter')
    n = 0
    for c in f.calls():
        if c.get('k') == 'CXXMemberCallExpr' and (c.get('callee') or '').split('::')[-1] in ('append', 'operator+=',
                                                                                          'push_back') and \
                mentions_var(object_of(c), target) and call_args(c):
            a = call_args(c)[0]
            a0 = strip_all_casts(a)
            if a0.get('k') == 'StringLiteral' or any(y.get('k') == 'StringLiteral' for y in walk(a)) and \
                    not any(y.get('k') == 'DeclRefExpr' for y in walk(a)):
                continue                      # the separator
            n += 1
            chk.check(from_found_key(a), rule, f.name, 'a handler constraint stores the complete key of every argument it '
                      'names', f.loc(c), 'the list is rebuilt from the text as given (one key form or an abbreviation): '
                      'the constraint does not recognise the argument when it is used')
    chk.require(n >= 1, 'validArguments: no key is appended to the rebuilt list')


def is_exempt_assign(f):
    for k, why in EXEMPT_ASSIGN.items():
        if k.startswith('q:'):
            if f.classq == k[2:]:
                return why
        elif f.cls == k or (k.endswith('<') and f.cls.startswith(k)):
            return why
    return None


def element_loops(func):
    """loops that iterate a common::Tokenizer (the loop statement, outside its body, touches it)"""
    res = []
    for loop in loops_in(func):
        kids = children(loop)
        head = kids[:-1] if loop['k'] != 'DoStmt' else kids[1:]
        hit = False
        for h in head:
            for x in walk(h):
                t = x.get('t', '')
                if 'celma::common::Tokenizer' in t or 'celma::container::CountingIterator' in t or \
                        (x.get('callee') or '').startswith('celma::common::TokenizerBase'):
                    hit = True
        if hit:
            res.append(loop)
    return res


def applies_check(prog, f, memo, depth=3):
    """list of offences: empty if f applies TypedArgBase::check() to the value (on every
    normal-return path) or to every list element (in every iteration of every tokenizer loop);
    calls to functions that themselves do so count (e.g. chaining to the base class assign())"""
    if f.key in memo:
        return memo[f.key]
    memo[f.key] = ['recursion']

    def is_target(n):
        if n.get('k') not in CALL_KINDS or 'callee' not in n:
            return False
        if callee_is(n, 'TypedArgBase::check'):
            return True
        if depth <= 0:
            return False
        tg = [prog.by_key[k][0] for k in prog.call_targets(n) if k in prog.by_key]
        if not tg or len(tg) != len(prog.call_targets(n)):
            return False
        # only value-forwarding helpers of the argument classes are followed
        if not all((g.classq or '').startswith('celma::prog_args::detail::TypedArg') for g in tg):
            return False
        return all(not applies_check(prog, g, memo, depth - 1) for g in tg)
    cfg = f.cfg
    off = []
    loops = element_loops(f)
    if loops:
        for loop in loops:
            off += ['%s (loop at %s)' % (o, f.loc(loop)) for o in loop_iteration_must_pass(cfg, loop, is_target)]
    else:
        if cfg.must_pass_through(is_target):
            off.append('a path through %s returns without running the attached value checks' % f.short)
    memo[f.key] = off
    return off


def r4_check_before_convert(chk, prog):
    tb = prog.derived_from('celma::prog_args::detail::TypedArgBase')
    n = 0
    memo = {}
    for f in prog.functions:
        if f.short != 'assign' or f.cls not in tb:
            continue
        why = is_exempt_assign(f)
        if why:
            continue
        n += 1
        off = applies_check(prog, f, memo)
        what = ('check() applied to every list element [%s]' if element_loops(f) else
                'check() on every normal-return path [%s]') % short_cls(f)
        chk.check(not off, 'R4', f.name, what, f.loc(), '; '.join(off))
    chk.require(n >= 20, 'only %d checked assign() overriders found' % n)


def short_cls(f):
    return (f.cls or '').replace('celma::prog_args::detail::', '').replace(
        'std::basic_string<char, std::char_traits<char>, std::allocator<char>>', 'string')[:70]


def r5_unknown(chk, prog):
    for cls, short in (('celma::prog_args::Handler', 'iterateArguments'),
                       ('celma::prog_args::Groups', 'evalArguments')):
        f = prog.one(cls, short, pred=lambda f: len(f.params) in (1, 2))
        cfg = f.cfg
        calls = list(f.calls_to('Handler::evalSingleArgument'))
        chk.require(calls, '%s does not call evalSingleArgument' % f.name)
        # edges taken when the result is *known* (must be blocked), by shape of the comparison
        known_edges = set()
        n_tests = 0
        for bid, cond in cfg.cond_blocks():
            c = strip_all_casts(cond) if cond else None
            if not c or c.get('k') != 'BinaryOperator' or c.get('op') not in ('==', '!='):
                continue
            if not any(x.get('k') == 'DeclRefExpr' and x.get('ref', {}).get('q', '').endswith('ArgResult::unknown')
                       for x in walk(c)):
                continue
            n_tests += 1
            br_known = 1 if c['op'] == '==' else 0
            e = cfg.edge_guard(bid, br_known)
            if e:
                known_edges.add(e)
        chk.require(n_tests >= 1, 'no test of the result against ArgResult::unknown in ' + f.name)
        for c in calls:
            # element loop: the loop whose induction variable is handed to evalSingleArgument
            arg0 = strip_all_casts(call_args(c)[0])
            loops = enclosing_loops(f, c)
            outer = None
            for l in loops:
                init = children(l)[0] if children(l) else None
                if init and init.get('k') == 'DeclStmt' and arg0.get('k') == 'DeclRefExpr' and \
                        any(d['name'] == arg0['ref']['name'] for d in init.get('decls', [])):
                    outer = l
            chk.require(outer is not None, 'element loop of evalSingleArgument not found in ' + f.name)
            h = loop_header(cfg, outer)
            pos = cfg.position(c)
            call_ids = {x['id'] for x in calls}

            def blocked(p, e):
                if p[0] == h:
                    return True
                return isinstance(e, int) and e in call_ids and p != pos
            seen = cfg.reach((pos[0], pos[1] + 1), blocked, blocked_edges=known_edges)
            reaches_next = any(p[0] == h for p in seen if p[0] != 'exit_from')
            reaches_ret = [p for p in cfg.pred[cfg.exit] if cfg.exit_kind(p) == 'return'
                           and ('exit_from', p) in seen]
            chk.check(not reaches_next and not reaches_ret, 'R5', f.name,
                      'an element no handler knows ends in an exception', f.loc(c),
                      'with result == unknown the %s is reachable without a throw' % (
                          'next element' if reaches_next else 'normal return'))
    # missing value: once the argument was found by mArguments.findArg(), a value mode other than
    # none/optional/command reaches a normal return only through handleIdentifiedArg( hdl, key, <value>)
    f = prog.one('celma::prog_args::Handler', 'processArg')
    cfg = f.cfg
    lookups = [c for c in f.calls_to('ArgumentContainer::findArg') if field_name(object_of(c)) == 'mArguments']
    # the lookup that yields the argument to handle is the last one (an earlier one only consults the container
    # when a sub-group key was abbreviated)
    lookups = sorted(lookups, key=lambda c: (c.get('l', 0), c.get('id', 0)))[-1:]
    chk.require(len(lookups) == 1, 'processArg: lookup in mArguments not found')
    mode_edges = set()
    for bid, cond in cfg.cond_blocks():
        c = strip_all_casts(cond) if cond else None
        if c and c.get('k') == 'BinaryOperator' and c.get('op') in ('==', '!=') and \
                mentions_call(c, 'valueMode') and any(
                    x.get('k') == 'DeclRefExpr' and
                    x.get('ref', {}).get('q', '').split('::')[-1] in ('optional', 'none', 'command') and
                    'ValueMode' in x['ref']['q'] for x in walk(c)):
            e = cfg.edge_guard(bid, 0 if c['op'] == '==' else 1)
            if e:
                mode_edges.add(e)
    chk.require(len(mode_edges) >= 3, 'processArg: value-mode tests not found')

    def blocked(pos, e):
        if not isinstance(e, int):
            return False
        n = f.node(e)
        if n is None:
            return False
        if n.get('k') == 'ReturnStmt' and any(
                x.get('k') == 'DeclRefExpr' and x.get('ref', {}).get('q', '').endswith('ArgResult::unknown')
                for x in walk(n)):
            return True
        if n.get('k') in CALL_KINDS and callee_is(n, 'Handler::handleIdentifiedArg'):
            args = call_args(n)
            return len(args) >= 3 and not args[2].get('defarg')
        return False
    lp = cfg.position(lookups[0])
    bad = cfg.can_reach_exit((lp[0], lp[1] + 1), blocked, blocked_edges=mode_edges)
    chk.check(not bad, 'R5', f.name, 'an argument that requires a value gets one or evaluation throws',
              f.loc(lookups[0]), 'a normal return is reachable for value mode "required" without a value '
              'being handed to handleIdentifiedArg')


def read_mode_carriers(prog):
    """members of TypedArgBase that assignValue() sets from its ignore_cardinality parameter before assign()"""
    av = prog.one('celma::prog_args::detail::TypedArgBase', 'assignValue')
    ign = av.params[0]['name']
    assigns = [c for c in av.calls() if callee_is(c, 'TypedArgBase::assign')]
    res = set()
    for n in av.walk():
        if n.get('k') == 'BinaryOperator' and n.get('op') == '=' and field_name(children(n)[0]) and \
                mentions_var(children(n)[1], ign) and all(av.cfg.node_dominates(n, a) for a in assigns):
            res.add(field_name(children(n)[0]))
    return res


def r6_cardinality(chk, prog):
    f = prog.one('celma::prog_args::detail::TypedArgBase', 'assignValue')
    cfg = f.cfg
    assigns = [c for c in f.calls() if callee_is(c, 'TypedArgBase::assign')]
    gots = list(f.calls_to('ICardinality::gotValue'))
    chk.require(assigns and gots, 'assignValue lost assign()/gotValue()')
    ign = f.params[0]['name']
    for a in assigns:
        # every path entry -> assign passes gotValue unless ignore_cardinality is true or mpCardinality is null
        ex = exempt_edges(f, lambda c: c.get('k') == 'DeclRefExpr' and c['ref']['name'] == ign, True)
        ex |= exempt_edges(f, lambda c: mentions_field(c, 'mpCardinality') and not any(
            x.get('k') in CALL_KINDS and callee_is(x, 'ICardinality::gotValue') for x in walk(c)), False)
        apos = cfg.position(a)
        got_ids = {g['id'] for g in gots}
        seen = cfg.reach(cfg.entry_pos(), lambda p, e: isinstance(e, int) and e in got_ids, blocked_edges=ex)
        chk.check(apos not in seen, 'R6', f.name, 'cardinality counted before every command-line assignment',
                  f.loc(a), 'assign() reachable without gotValue() although cardinality is not ignored')
    # deprecated / replaced arguments throw before assign
    dep_edges = exempt_edges(f, lambda c: c.get('k') == 'MemberExpr' and c['ref']['name'] == 'mIsDeprecated', False)
    for a in assigns:
        seen = cfg.reach(cfg.entry_pos(), None, blocked_edges=dep_edges)
        chk.check(cfg.position(a) not in seen, 'R6', f.name, 'deprecated/replaced argument never assigned', f.loc(a))
    # gotValue implementations throw exactly when the count exceeds the maximum (shape via Engine B in R7)
    # per-element counting in list-splitting assigns
    tb = prog.derived_from('celma::prog_args::detail::TypedArgBase')
    n = 0
    for g in prog.functions:
        if g.short != 'assign' or g.cls not in tb or is_exempt_assign(g):
            continue
        for loop in element_loops(g):
            n += 1
            gcfg = g.cfg
            gv = [c for c in g.calls_to('ICardinality::gotValue') if loop in enclosing_loops(g, c)]
            ok = bool(gv)
            detail = 'no gotValue() call in the element loop'
            for c in gv:
                pos = gcfg.position(c)
                for bid, cond in gcfg.cond_blocks():
                    if cond is None:
                        continue
                    cn = gcfg.func.node(gcfg.blocks[bid].get('cond'))
                    if not (gcfg.guarded_by_edge(pos, bid, 0) or gcfg.guarded_by_edge(pos, bid, 1)):
                        continue
                    # the loop's own condition is fine
                    if gcfg.blocks[bid].get('term') == loop['id']:
                        continue
                    fields = {x['ref']['name'] for x in walk(cn)
                              if x.get('k') == 'MemberExpr' and x.get('ref', {}).get('dk') == 'Field'}
                    # the member through which assignValue() tells assign() that the value does not come from the
                    # command line is a legitimate guard (C03-R5 decides that it is set from ignore_cardinality)
                    extra = fields - {'mpCardinality'} - read_mode_carriers(prog)
                    if extra:
                        ok = False
                        detail = 'gotValue() additionally guarded by %s' % sorted(extra)
            chk.check(ok, 'R6', g.name, 'every further list element is counted [%s]' % short_cls(g),
                      g.loc(loop), detail)
    chk.require(n >= 8, 'only %d list-splitting assign() loops found' % n)


def r9_constraint_scans(chk, prog):
    """the bookkeeping of requires/excludes visits every stored entry: no early normal exit from the
    scan loops; a matching 'excluded' entry throws, a matching 'required' entry is erased; at the end
    any remaining 'required' entry throws"""
    def enum_cond(cfg, name):
        res = []
        for bid, cond in cfg.cond_blocks():
            c = strip_all_casts(cond) if cond else None
            if c and c.get('k') == 'BinaryOperator' and c.get('op') in ('==', '!=') and any(
                    x.get('k') == 'DeclRefExpr' and x.get('ref', {}).get('dk') == 'EnumConstant' and
                    x['ref'].get('q', '').endswith('Constraint::' + name) for x in walk(c)):
                res.append((bid, 0 if c['op'] == '==' else 1))
        return res

    def no_early_exit(f, loop):
        cfg = f.cfg
        h = loop_header(cfg, loop)
        body = cfg.succ[h][0]
        seen = cfg.reach((body, 0), lambda pos, e: pos[0] == h)
        off = []
        if any(('exit_from', p) in seen for p in cfg.pred[cfg.exit] if cfg.exit_kind(p) == 'return'):
            off.append('the scan can return before all entries were visited')
        out = cfg.succ[h][1]
        if out is not None and out != cfg.exit and (out, 0) in seen:
            off.append('the scan can be left by break before all entries were visited')
        return off

    f = prog.one('celma::prog_args::detail::ConstraintContainer', 'argumentIdentified')
    cfg = f.cfg
    loops = loops_in(f)
    if not loops:
        # the entries for the key are looked up, but only once: the same key can be stored several times (required by
        # several arguments, or required and excluded)
        chk.require(any(field_name(object_of(c)) == 'mConstraints' or mentions_field(c, 'mConstraints')
                        for c in f.calls()), 'argumentIdentified: neither a scan loop nor a lookup in mConstraints')
        chk.check(False, 'R9', f.name, 'every stored constraint on the identified key is processed', f.loc(),
                  'the constraints are searched without a loop: at most the first entry for the key is handled')
    for loop in loops:
        off = no_early_exit(f, loop)
        chk.check(not off, 'R9', f.name, 'every stored constraint on the identified key is processed', f.loc(loop),
                  '; '.join(off))
    exc = enum_cond(cfg, 'excluded')
    chk.require(exc, 'argumentIdentified: test for Constraint::excluded not found')
    for bid, br in exc:
        tgt = cfg.succ[bid][br]
        seen = cfg.reach((tgt, 0))
        ok = not any(p[0] == 'exit_from' and cfg.exit_kind(p[1]) == 'return' for p in seen) and \
            not any(p[0] == loop_header(cfg, l) for l in loops for p in seen if p[0] != 'exit_from')
        chk.check(ok, 'R9', f.name, 'an argument that is excluded by a used argument ends in an exception', f.loc())
    req = enum_cond(cfg, 'required')
    chk.require(req, 'argumentIdentified: test for Constraint::required not found')
    for bid, br in req:
        tgt = cfg.succ[bid][br]
        er = [c for c in f.calls() if field_name(object_of(c)) == 'mConstraints' and 'erase' in c.get('callee', '')]
        ok = bool(er) and any(cfg.guarded_by_edge(cfg.position(c), bid, br) for c in er)
        chk.check(ok, 'R9', f.name, 'a fulfilled requirement is removed', f.loc())
    # early return only when nothing is stored
    f2 = prog.one('celma::prog_args::detail::ConstraintContainer', 'checkRequired')
    cfg2 = f2.cfg
    loops2 = [l for l in loops_in(f2) if any(mentions_field(hh, 'mConstraints') for hh in children(l)[:-1])]
    chk.require(loops2, 'checkRequired: loop over mConstraints not found')
    off = no_early_exit(f2, loops2[0])
    h2 = loop_header(cfg2, loops2[0])
    bypass = cfg2.can_reach_exit(cfg2.entry_pos(), lambda pos, e: pos[0] == h2)
    req2 = enum_cond(cfg2, 'required')
    throws = bool(req2)
    for bid, br in req2:
        tgt = cfg2.succ[bid][br]
        seen = cfg2.reach((tgt, 0))
        if any(p[0] == 'exit_from' and cfg2.exit_kind(p[1]) == 'return' for p in seen) or \
                any(p[0] == h2 for p in seen if p[0] != 'exit_from'):
            throws = False
    chk.check(not off and not bypass and throws, 'R9', f2.name,
              'every requirement that is still open at the end ends in an exception', f2.loc(),
              '; '.join(off + (['the loop can be bypassed'] if bypass else []) +
                        ([] if throws else ['an open requirement does not throw'])))
    # addConstraint: every listed argument gets an entry unless the same constraint is already stored
    f3 = prog.one('celma::prog_args::detail::ConstraintContainer', 'addConstraint')
    cfg3 = f3.cfg
    tl = element_loops(f3)
    chk.require(tl, 'addConstraint: token loop not found')
    off = no_early_exit(f3, tl[0])
    adds = [c for c in f3.calls() if field_name(object_of(c)) == 'mConstraints' and callee_is(c, 'addArgument')]
    chk.check(not off and bool(adds), 'R9', f3.name, 'a constraint is recorded for every listed argument', f3.loc(),
              '; '.join(off) or 'no store into mConstraints')
    # ... with the kind it was defined with: the entry is built from the kind parameter, the entry's constructor
    # stores it, and the two constraint classes pass the kind they are named after
    kind_param = f3.params[0]['name']
    for c in adds:
        a = call_args(c)
        ctor = [x for x in walk(a[0]) if x.get('k') in ('CXXConstructExpr', 'CXXTemporaryObjectExpr') and
                (x.get('callee') or '').endswith('Data::Data')] if a else []
        kinds = {y['ref'].get('name') for x in ctor[:1] for y in walk(children(x)[0])
                 if y.get('k') == 'DeclRefExpr'} if ctor and children(ctor[0]) else set()
        chk.check(kinds == {kind_param}, 'R9', f3.name, 'the stored entry carries the kind (required / excluded) that was '
                  'given', f3.loc(c), 'the kind of the entry is built from %s' % (sorted(kinds) or 'a constant'))
    dctor = [g for g in prog.functions if (g.classq or '').endswith('ConstraintContainer::Data') and g.d.get('ctor')
             and len(g.params) == 2]
    chk.require(dctor, 'constructor of ConstraintContainer::Data not found')
    for g in dctor:
        ini = {i.get('name'): i.get('init') for i in g.inits}
        ok = isinstance(ini.get('mConstraint'), dict) and {
            y['ref'].get('name') for y in walk(ini['mConstraint']) if y.get('k') == 'DeclRefExpr'} == {g.params[0]['name']}
        chk.check(ok, 'R9', g.name, 'the entry stores the kind it is constructed with', g.loc())
    producers = {'ConstraintRequires': 'required', 'ConstraintExcludes': 'excluded'}
    n_prod = 0
    for g in prog.functions:
        cls = (g.classq or '').split('::')[-1]
        if cls not in producers or g.body is None:
            continue
        for c in g.calls():
            if callee_is(c, 'ConstraintContainer::addConstraint'):
                a = call_args(c)
                en = {y['ref'].get('name') for y in walk(a[0]) if y.get('k') == 'DeclRefExpr' and
                      y['ref'].get('dk') == 'EnumConstant'} if a else set()
                n_prod += 1
                chk.check(en == {producers[cls]}, 'R9', g.name, '%s records constraints of the kind "%s"' % (
                    cls, producers[cls]), g.loc(c), 'passes %s' % sorted(en))
    chk.require(n_prod >= 2, 'constraint classes that record requires/excludes: %d' % n_prod)


def r10_value_constraint_scans(chk, prog):
    """value constraints over a list of arguments (differ, ...) are checked at the end for EVERY pair: the loops
    over the handlers of the constraint are left only when all handlers were visited or by the exception"""
    n = 0
    for f in prog.functions:
        if f.short != 'checkEndCondition' or f.body is None:
            continue
        cfg = f.cfg
        for loop in loops_in(f):
            kids = children(loop)
            if loop.get('k') == 'CXXForRangeStmt':
                over = mentions_field(kids[0], 'mArgHandlers')
            elif loop.get('k') == 'ForStmt':
                # iterator / index form: the loop condition compares against the end / size of mArgHandlers
                over = any(isinstance(x, dict) and mentions_field(x, 'mArgHandlers') for x in loop.get('c', [])[:3])
            else:
                over = False
            if not over:
                continue
            n += 1
            h = loop_header(cfg, loop)
            body = cfg.succ[h][0]
            seen = cfg.reach((body, 0), lambda pos, e: pos[0] == h)
            off = []
            if any(('exit_from', p) in seen for p in cfg.pred[cfg.exit] if cfg.exit_kind(p) == 'return'):
                off.append('the scan can return before all arguments of the constraint were compared')
            out = cfg.succ[h][1]
            # leaving an inner loop into the enclosing loop's next iteration is fine; leaving towards the code
            # behind the loop (break) is not
            if out is not None and out != cfg.exit and (out, 0) in seen:
                off.append('the scan can be left by break before all arguments were compared')
            chk.check(not off, 'R10', f.name, 'the end check of a value constraint compares every argument of the '
                      'constraint (with every other)', f.loc(loop), '; '.join(off))
    chk.require(n >= 2, 'loops over the handlers of a value constraint found: %d' % n)


def r11_command_line_counts(chk, prog):
    """every value of the command line counts against the cardinality: at every call of assignValue() in the
    handler the ignore_cardinality argument evaluates to false when the read mode is 'commandLine' (exhaustive
    evaluation of the argument expression over the read-mode values)"""
    from ..boolshape import Interp, NeedAtom, Unsupported
    en = prog.enums.get('celma::prog_args::Handler::ReadMode')
    chk.require(en is not None, 'enum Handler::ReadMode not found')
    vals = {e['name']: e['val'] for e in en['enumerators']}
    chk.require('commandLine' in vals, 'Handler::ReadMode::commandLine not found')
    n = 0
    for f in prog.functions:
        if f.classq != 'celma::prog_args::Handler':
            continue
        for c in f.calls_to('TypedArgBase::assignValue'):
            n += 1
            arg = call_args(c)[0]
            it = Interp(f, {'this.mReadMode': vals['commandLine']})
            try:
                v = it.ev(arg)
            except (NeedAtom, Unsupported) as e:
                raise AnalysisBroken('ignore_cardinality expression not interpretable in %s: %s' % (f.key, e))
            chk.check(not v, 'R11', f.name, 'a value read from the command line is counted against the cardinality '
                      '(ignore_cardinality is false in read mode commandLine)', f.loc(c),
                      'for mReadMode == commandLine the argument expression yields %s' % v)
    chk.require(n >= 1, 'assignValue call sites in Handler: %d' % n)


def r12_value_mode_table(chk, prog):
    """pairing of a key with its value (Handler::processArg after the lookup), evaluated abstractly (Engine B) for
    every combination of the argument's value mode {none, optional, required, command} and of what follows the key
    {nothing, a value, another key}.  Expected: 'none' - handled without value, nothing consumed; 'command' -
    handled with the rest of the line, result 'last'; 'required' - the following value is handed over and consumed
    (the rest of a '-kvalue' word counts as the value: remArgStrAsVal() before the step), otherwise the 'requires
    value' exception; 'optional' - a following value is handed over and consumed, otherwise handled without value
    (and a glued rest is NOT taken as value)"""
    from ..boolshape import Interp, NeedAtom, Unsupported, Throw
    import itertools
    f = prog.one('celma::prog_args::Handler', 'processArg')
    en = prog.enums.get('celma::prog_args::Handler::ArgResult')
    vm = [e for q, e in prog.enums.items() if q.endswith('::ValueMode')]
    et = [e for q, e in prog.enums.items() if q.endswith('ArgListElement::Type')]
    chk.require(en is not None and vm and et, 'enums ArgResult / ValueMode / ArgListElement::Type not found')
    res_vals = {e['name']: e['val'] for e in en['enumerators']}
    modes = {e['name']: e['val'] for e in vm[0]['enumerators']}
    types = {e['name']: e['val'] for e in et[0]['enumerators']}
    n = 0
    for mode, nxt in itertools.product(('none', 'optional', 'required', 'command'), ('nothing', 'value', 'key')):
        ev = {'handled': [], 'rem': False, 'advanced_ai': False}
        ARG, END, NEXT, VAL, REST = 21, 9, 2, 77, 55

        def cb_handle(it, call):
            args = [a for a in call_args(call) if not a.get('defarg')]
            ev['handled'].append((it.ev_obj(args[0]), it.ev_obj(args[2]) if len(args) >= 3 else None))
            return 0

        def cb_inc(it, call):
            tgt = children(call)[1] if call.get('k') == 'CXXOperatorCallExpr' else object_of(call)
            name = strip_all_casts(tgt).get('ref', {}).get('name')
            if name is None:
                raise Unsupported('step of an unnamed iterator')
            it.set_atom(name, END if nxt == 'nothing' else NEXT)
            return 0

        def cb_assign(it, call):
            kids = children(call)
            lhs, rhs = strip_all_casts(kids[1]), kids[2]
            name = lhs.get('ref', {}).get('name')
            v = it.ev_obj(rhs)
            if name == 'ai':
                ev['advanced_ai'] = v == NEXT
            it.set_atom(name, v)
            return v

        def cb_rem(it, call):
            ev['rem'] = True
            return 0

        def cb_atom(it, key):
            if key.endswith('.mElementType'):
                return types['value'] if nxt == 'value' else types['stringArg']
            if key.endswith('.mValue'):
                return VAL
            return None
        cbs = {'findArg': lambda it, call: ARG if field_name(object_of(call)) == 'mArguments' else 0,
               'findExactArg': lambda it, call: ARG if field_name(object_of(call)) == 'mArguments' else 0,
               'key': lambda it, call: 1, 'valueMode': lambda it, call: modes[mode],
               'handleIdentifiedArg': cb_handle, 'operator++': cb_inc, 'operator=': cb_assign,
               'remArgStrAsVal': cb_rem, 'argsAsString': lambda it, call: REST, '<atom>': cb_atom}
        it = Interp(f, {'key': 1, 'ai': 1, 'end': END, 'this.mpLastArg': 0}, callbacks=cbs, prog=None)
        try:
            out = it.run(f.body)
        except (NeedAtom, Unsupported) as e:
            raise AnalysisBroken('processArg value pairing not interpretable for (%s, %s): %s' % (
                mode, nxt, getattr(e, 'key', e)))
        got = ('throw',) if out[0] == 'throw' else (
            {v: k for k, v in res_vals.items()}.get(out[1], out[1]), tuple(ev['handled']), ev['advanced_ai'])
        if mode == 'none':
            want = ('consumed', ((ARG, None),), False)
        elif mode == 'command':
            want = ('last', ((ARG, REST),), False)
        elif nxt == 'value':
            want = ('consumed', ((ARG, VAL),), True)
        elif mode == 'optional':
            want = ('consumed', ((ARG, None),), False)
        else:
            want = ('throw',)
        n += 1

        def show(o):
            if o[0] == 'throw':
                return 'an exception'
            h = ', '.join('handled %s' % ('with the following value' if v == VAL else 'with the rest of the line'
                                          if v == REST else 'without value' if v is None else 'with %r' % v)
                          for _, v in o[1]) or 'not handled'
            return '%s, result %s, following word %s' % (h, o[0], 'consumed' if o[2] else 'not consumed')
        chk.check(got == want, 'R12', f.name, 'value mode %s, followed by %s: %s' % (mode, nxt, show(want)), f.loc(),
                  'processArg: %s' % show(got))
        if mode in ('optional', 'required'):
            n += 1
            chk.check(ev['rem'] == (mode == 'required') or got == ('throw',) and mode == 'required' and ev['rem'],
                      'R12', f.name, "value mode %s, followed by %s: the rest of a '-kvalue' word %s" % (
                          mode, nxt, 'is the value' if mode == 'required' else 'is not taken as value'), f.loc(),
                      'remArgStrAsVal() %s' % ('called' if ev['rem'] else 'not called'))
    chk.require(n >= 12, 'value-mode combinations evaluated: %d' % n)


def r14_level_counter_checks_new_level(chk, prog):
    """a level counter that is incremented by a value-less use of its argument: the attached checks judge the level
    the counter HAS afterwards (upper( N) refuses the use that lifts it above N, not the one after it).  The increment
    branch of TypedArg< LevelCounter>::assign() is evaluated abstractly (Engine B, the counter modelled as an
    integer) for several start levels: the text handed to check() is the decimal text of the level that is stored"""
    from ..boolshape import Interp, NeedAtom, Unsupported
    fs = [f for f in prog.functions if f.short == 'assign' and (f.cls or '').endswith('TypedArg<celma::common::LevelCounter>')
          and f.body is not None]
    if not fs:
        fs = [f for f in prog.functions if f.short == 'assign' and 'LevelCounter' in (f.cls or '') and f.body is not None]
    chk.require(fs, 'TypedArg< LevelCounter>::assign not instantiated')
    f = fs[0]
    n = 0
    for start in (0, 1, 7):
        ev = {'checked': []}

        def obj_key(it, expr):
            e0 = strip_all_casts(expr)
            while e0.get('k') in ('ParenExpr', 'MaterializeTemporaryExpr', 'CXXBindTemporaryExpr') and children(e0):
                e0 = strip_all_casts(children(e0)[0])
            if e0.get('k') == 'MemberExpr':
                return 'this.' + e0['ref']['name']
            if e0.get('k') == 'DeclRefExpr':
                return e0['ref']['name']
            return None

        def cb_value(it, call):
            o = object_of(call)
            k = obj_key(it, o) if o is not None else None
            if k is not None:
                return it.atom(k, 'ord')
            return it.ev_obj(o)             # a temporary: its value

        def cb_inc(it, call):
            kids = children(call)
            k = obj_key(it, kids[1])
            if k is None:
                raise Unsupported('increment of an unnamed counter')
            old = it.atom(k, 'ord')
            it.set_atom(k, old + 1)
            return old if len(kids) > 2 else old + 1        # postfix form has the dummy int operand

        def cb_assign(it, call):
            kids = children(call)
            k = obj_key(it, kids[1])
            v = it.ev_obj(kids[2])
            if k is None:
                raise Unsupported('assignment to an unnamed counter')
            it.set_atom(k, v)
            return v

        def cb_check(it, call):
            ev['checked'].append(it.ev_obj(call_args(call)[0]))
            return 0
        cbs = {'value': cb_value, 'operator++': cb_inc, 'operator=': cb_assign, 'check': cb_check,
               'to_string': lambda it, call: it.ev_obj(call_args(call)[0]),
               'LevelCounter': lambda it, call: it.ev_obj(children(call)[0]) if children(call) else 0}
        it = Interp(f, {'value': 0, 'this.mDestVar': start, 'this.mHasValueSet': 0, 'this.mAllowMixIncSet': 0,
                        'this.mIncremented': 0}, callbacks=cbs, prog=None)
        try:
            out = it.run(f.body)
        except (NeedAtom, Unsupported) as e:
            raise AnalysisBroken('TypedArg< LevelCounter>::assign (increment) not interpretable: %s' % getattr(e, 'key', e))
        stored = it.env.get('this.mDestVar')
        n += 1
        ok = out[0] == 'return' and stored == start + 1 and ev['checked'] == [start + 1]
        chk.check(ok, 'R14', f.name, 'incrementing from level %d: the checks judge level %d, which is then stored' % (
            start, start + 1), f.loc(), 'checked %s, stored %s%s' % (ev['checked'], stored,
                                                                    ' (exception)' if out[0] == 'throw' else ''))
    return n


def r15_constraint_registration(chk, prog, rule='R15'):
    """a handler constraint (all_of / any_of / one_of / value constraints) that is registered has been told that
    its argument list is final: Handler::addConstraint() stores the object only after validated() - which is what
    makes all_of build its list of still missing arguments - was called, on every path, unconditionally"""
    f = prog.one('celma::prog_args::Handler', 'addConstraint', pred=lambda g: len(g.params) == 1)
    cfg = f.cfg
    stores = [c for c in f.calls() if field_name(object_of(c)) == 'mGlobalConstraints' and
              (c.get('callee') or '').split('::')[-1] in ('push_back', 'emplace_back', 'insert')]
    chk.require(stores, 'addConstraint: store into mGlobalConstraints not found')
    val = [c for c in f.calls() if callee_is(c, 'validated')]
    vpos = {cfg.position(c) for c in val}
    seen = cfg.reach(cfg.entry_pos(), lambda pos, e: pos in vpos)
    for c in stores:
        chk.check(bool(val) and cfg.position(c) not in seen, rule, f.name, 'a constraint is registered only after it '
                  'was told that its argument list is final (validated())', f.loc(c),
                  'the store is reachable without validated()')
    # ... and the end conditions of all registered constraints are evaluated (R1 covers the call; here: the list that
    # is iterated is the list that addConstraint() fills)
    g = prog.one('celma::prog_args::Handler', 'checkGlobalConstraints')
    chk.check(any(mentions_field(l, 'mGlobalConstraints') for l in loops_in(g)), rule, g.name,
              'the end conditions are evaluated for the registered constraints', g.loc())


def r17_disjoint_any_order(chk, prog, rule='R17'):
    """the disjoint constraint is decided for values in ANY order: hasIntersection() of an adapter whose container does
    not keep its elements sorted (trait IsSorted false: vector, deque, list, forward_list, the unordered containers)
    must not reach - through repository helpers - a MERGE walk (a loop over two cursors that advances one of them
    depending on `*a < *b`, correct for sorted ranges only) unless the call is guarded by is_sorted() of the data.
    '-l 3,1 -r 1,4' holds 1 in both lists, and the merge walk does not see it."""
    import re

    def merge_shaped(g):
        """a loop whose body advances different iterator PARAMETERS on the two sides of a `<` comparison of their
        dereferenced values"""
        if g.body is None or len(g.params) < 4:
            return False
        pn = {p_['name'] for p_ in g.params}
        for l in loops_in(g):
            incs = {strip_all_casts(call_args(x)[0] if x.get('k') == 'CXXOperatorCallExpr' else children(x)[0]).get(
                'ref', {}).get('name') for x in walk(l)
                if (x.get('k') == 'CXXOperatorCallExpr' and x.get('op') == '++') or
                (x.get('k') == 'UnaryOperator' and x.get('op') == '++')}
            lt_ = any(x.get('k') in ('BinaryOperator', 'CXXOperatorCallExpr') and x.get('op') == '<' and
                      len({y['ref'].get('name') for y in walk(x) if y.get('k') == 'DeclRefExpr'} & pn) >= 2
                      for x in walk(l))
            if lt_ and len(incs & pn) >= 2:
                return True
        return False

    def unguarded_merge(g, depth=0, seen=None):
        """name of a merge-shaped repository function reachable from g without an is_sorted() guard, else None"""
        seen = seen if seen is not None else set()
        if g.key in seen or depth > 4 or g.body is None:
            return None
        seen.add(g.key)
        for c in g.calls():
            h = prog.by_key.get(c.get('ckey'), [None])[0]
            if h is None or not (c.get('callee') or '').startswith('celma::'):
                continue
            pos = g.cfg.position(c)
            # the ranges handed on must ALL be known to be sorted: variables of the call's arguments vs. variables
            # tested by is_sorted() in conditions whose true edge guards the call
            handed = {y['ref'].get('name') for a in call_args(c) for y in walk(a) if y.get('k') == 'DeclRefExpr' and
                      y['ref'].get('sto') in ('param', 'local')}
            tested = set()
            for bid, cond in g.cfg.cond_blocks():
                if cond is None or not g.cfg.guarded_by_edge(pos, bid, 0):
                    continue
                for y in walk(cond):
                    if y.get('k') in CALL_KINDS and (y.get('callee') or '').split('::')[-1].split('<')[0] == 'is_sorted':
                        tested |= {z['ref'].get('name') for z in walk(y) if z.get('k') == 'DeclRefExpr' and
                                   z['ref'].get('sto') in ('param', 'local')}
            if tested and handed <= tested:
                continue
            if merge_shaped(h):
                return h.name
            r = unguarded_merge(h, depth + 1, seen)
            if r:
                return r
        return None
    consts = {}
    for (q, f_, l), v in prog.vars.items():
        m = re.match(r'(celma::prog_args::detail::(?:KeyValue)?ContainerAdapter<.*>)::(\w+)$', q)
        if m and 'val' in v:
            consts.setdefault(m.group(1), {})[m.group(2)] = v['val']
    n = 0
    for f in prog.functions:
        cls = f.cls or ''
        if f.short != 'hasIntersection' or f.body is None or 'ContainerAdapter<' not in cls or \
                not cls.startswith('celma::prog_args::detail::'):
            continue
        if any(x.get('k') == 'CXXThrowExpr' for x in f.walk()) and not any(x.get('k') == 'ReturnStmt' for x in f.walk()):
            continue                      # not supported for this container (throws)
        tr = consts.get(cls, {})
        kind = re.sub(r'<.*', '', cls.split('ContainerAdapter<', 1)[1])
        is_sorted_cont = bool(tr.get('IsSorted')) if 'IsSorted' in tr else kind in (
            'std::set', 'std::multiset', 'std::map', 'std::multimap')
        if is_sorted_cont:
            continue
        n += 1
        bad = unguarded_merge(f)
        chk.check(bad is None, rule, f.name, 'the disjoint test of a %s destination does not depend on the order of '
                  'the values' % kind, f.loc(), 'it ends in the merge walk %s, which is correct for sorted ranges only'
                  % (bad or ''))
    chk.require(n >= 4, 'hasIntersection() of adapters of unsorted containers: %d' % n)


def r18_constraints_activated(chk, prog, rule='R18'):
    """requires / excludes of an argument take effect on EVERY use of the argument: TypedArgBase::assignValue() -
    the funnel every identified argument goes through - reaches activateConstraints() on every normal path,
    whatever the destination held before (a container that already has default content "has a value" before the
    first use)"""
    f = prog.one('celma::prog_args::detail::TypedArgBase', 'assignValue')
    acts = [c for c in f.calls() if callee_is(c, 'TypedArgBase::activateConstraints')]
    asg = [c for c in f.calls() if callee_is(c, 'assign')]
    chk.require(asg, 'assignValue: call of assign() not found')
    off = f.cfg.must_pass_through(lambda n_: any(n_ is c for c in acts)) if acts else ['no call']
    chk.check(bool(acts) and not off, rule, f.name, 'the constraints of an argument are activated on every use',
              f.loc(), 'a normal return is reachable without activateConstraints()')
    # ... for handler-level constraints: executeGlobalConstraints() on every identification
    g = prog.one('celma::prog_args::Handler', 'handleIdentifiedArg')
    ex = [c for c in g.calls() if callee_is(c, 'Handler::executeGlobalConstraints')]
    off2 = g.cfg.must_pass_through(lambda n_: any(n_ is c for c in ex)) if ex else ['no call']
    chk.check(bool(ex) and not off2, rule, g.name, 'the handler constraints see every identified argument', g.loc(),
              'a normal return is reachable without executeGlobalConstraints()')


def r19_pattern_check(chk, prog, rule='R19'):
    """the pattern check accepts a value only if the WHOLE value matches the regular expression: the verdict comes from
    std::regex_match (a search for a matching stretch somewhere inside the value - regex_search - would accept
    '123abc' for [0-9]+), and a value that does not match ends in an exception"""
    f = prog.one('celma::prog_args::detail::CheckPattern', 'checkValue')
    names = {(c.get('callee') or '').split('::')[-1].split('<')[0] for c in f.calls() if
             (c.get('callee') or '').startswith('std::regex_') or (c.get('callee') or '').startswith('boost::regex_')}
    chk.check(names == {'regex_match'}, rule, f.name, 'the pattern check matches the whole value', f.loc(),
              'uses %s' % (sorted(names) or 'no regular expression function'))
    thr = [x for x in f.walk() if x.get('k') == 'CXXThrowExpr']
    ok = False
    for bid, cond in f.cfg.cond_blocks():
        if cond is not None and any(y.get('k') in CALL_KINDS and 'regex_' in (y.get('callee') or '') for y in walk(cond)):
            c0 = strip_all_casts(cond)
            neg = c0.get('k') == 'UnaryOperator' and c0.get('op') == '!'
            tgt = f.cfg.succ[bid][0 if neg else 1]
            seen = f.cfg.reach((tgt, 0)) if tgt is not None else set()
            ok = not any(p_[0] == 'exit_from' and f.cfg.exit_kind(p_[1]) == 'return' for p_ in seen) and bool(thr)
    chk.check(ok, rule, f.name, 'a value that does not match is refused', f.loc())


def run(chk):
    prog, units = rules.prog_args_program()
    chk.units = units
    chk.explanation = (
        'Must-pass-through / dominance / sibling-agreement rules over the CFGs of the evaluation entry points '
        '(Handler::evalArguments, iterateArguments, processArg, handleIdentifiedArg, TypedArgBase::assignValue) and '
        'of every assign() overrider instantiated by the driver (all destination kinds), closed under wrapper '
        'functions via the resolved call graph; comparison shapes of checks/cardinalities by exhaustive truth '
        'tables over orderings (Engine B). Decides that each declared rule has an enforcing call on every path to '
        'success; does not decide value conversion (C01) nor regex/file-system check semantics.')
    chk.assumptions = ['exceptions are the only failure channel: a call that throws does not return normally',
                       'boost::lexical_cast throws on unconvertible input (trusted library)']
    chk.rule('R1', 'end checks on every successful path of Handler::evalArguments', 5)
    chk.rule('R2', 'constraint notification dominates assignment; single funnel handleIdentifiedArg', 5)
    chk.rule('R3', 'constraints are notified with the canonical key of the identified argument', 2)
    chk.rule('R4', 'check() on every path / every list element of every value-taking assign()', 20)
    chk.rule('R5', 'unknown element / missing value end in an exception', 3)
    chk.rule('R6', 'cardinality counted for every command-line value', 10)
    chk.rule('R9', 'requires/excludes bookkeeping scans every stored constraint', 5)
    r1_end_checks(chk, prog)
    r2_identification(chk, prog)
    r3_canonical_key(chk, prog)
    r3_canonical_constraint_lists(chk, prog)
    r4_check_before_convert(chk, prog)
    r5_unknown(chk, prog)
    r6_cardinality(chk, prog)
    r9_constraint_scans(chk, prog)
    chk.rule('R10', 'value constraints compare every argument of the constraint at the end', 2)
    r10_value_constraint_scans(chk, prog)
    chk.rule('R11', 'command-line values are never exempt from the cardinality', 2)
    r11_command_line_counts(chk, prog)
    chk.rule('R12', 'a key is paired with its value according to the value mode (exhaustive table)', 12)
    r12_value_mode_table(chk, prog)
    # R13: a required value that is missing is noticed: the tokeniser does not turn the next WORD into a value just
    # because the argument requested one (decision table of ArgListIterator::operator++, shared with C01-R9)
    from . import c01
    chk.rule('R13', "tokeniser: a requested value is taken from the rest of the same word only (so '-s -f' is a "
             "missing value)", 8)
    c01.r9_value_word_decision(chk, prog, rule='R13')
    chk.rule('R14', 'level counter: the level that is checked is the level that is stored', 3)
    r14_level_counter_checks_new_level(chk, prog)
    chk.rule('R15', 'handler constraints are registered only after validated()', 2)
    r15_constraint_registration(chk, prog)
    chk.rule('R16', 'a tuple value is converted to the type of the element it belongs to (element index = values stored so far)', 1)
    from . import c06 as _c06
    _c06.r3_tuple_element_index(chk, prog, rule='R16')
    chk.rule('R17', 'the disjoint constraint is decided for values in any order', 4)
    r17_disjoint_any_order(chk, prog)
    chk.rule('R18', 'argument and handler constraints are activated on every use of an argument', 2)
    r18_constraints_activated(chk, prog)
    chk.rule('R19', 'the pattern check matches the whole value', 2)
    r19_pattern_check(chk, prog)
    from . import c02_shapes
    c02_shapes.run(chk, prog)
