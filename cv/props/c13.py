"""C13 — Integer-to-string conversions are exact for every integer.  (Engine D, proof level)

P1 intNN_str_length returns floor(log10 v)+1 on the whole unsigned range (interval partition)
P2 convert(): for every entry label the written cells are exactly the specified layout
P3 wrappers: buffer_end, lengths, NUL, '-', value handed to convert; dispatchers select the
   negative variant exactly for value < 0 and the width by sizeof"""
import os

from ..rules import object_of, call_args
from ..digits import Machine, Lossy, Sym, Return, Unsupported, length_partition, UINT_BITS, SINT_BITS, base_type
from ..facts import VERIF, load_program, units_matching, children, strip_all_casts, walk, CALL_KINDS, \
    AnalysisBroken
from ..boolshape import Interp, NeedAtom
from .. import boolshape

WIDTHS = (8, 16, 32, 64)
MAXLEN = {8: 3, 16: 5, 32: 10, 64: 20}


def ndigits(v):
    return len(str(v))


def p1(chk, prog):
    lens = {}
    for bits in WIDTHS:
        name = 'celma::format::detail::int%d_str_length' % bits
        fs = [f for f in prog.functions if f.name == name]
        chk.require(fs, name + ' not instantiated')
        # the instantiations used by the library: parameter type must be the unsigned type of that width
        for f in {f.key: f for f in fs}.values():
            pt = base_type(f.params[0]['t'])
            ok_type = UINT_BITS.get(pt) == bits
            chk.check(ok_type, 'P1', f.name, 'length function instantiated for the %d-bit unsigned type' % bits,
                      f.loc(), 'instantiated for %s: the cast to uint%d_t is not the identity' % (pt, bits))
            if not ok_type:
                continue
            try:
                part = length_partition(f, bits)
            except (Unsupported, boolshape.Unsupported, NeedAtom) as u:
                raise AnalysisBroken('%s: decision tree not interpretable: %s' % (f.key, u))
            covered = 0
            rets = set()
            for lo, hi, r in part:
                covered += hi - lo + 1
                good = isinstance(r, int) and ndigits(lo) == r and ndigits(hi) == r
                rets.add(r)
                chk.check(good, 'P1', f.name, 'values %d..%d have %s digits' % (lo, hi, ndigits(lo) if
                          ndigits(lo) == ndigits(hi) else '%d..%d' % (ndigits(lo), ndigits(hi))), f.loc(),
                          'the function returns %r for this whole interval' % (r,))
            chk.check(covered == (1 << bits), 'P1', f.name, 'partition covers all 2^%d values' % bits, f.loc())
            lens[bits] = sorted(rets)
    return lens


def expected_cells(sym, L, grouped, neg):
    digits = [Sym('chrlast', sym, L - 1)] + [Sym('chr', sym, j) for j in range(L - 2, -1, -1)]
    cells = []
    for i, d in enumerate(digits):
        remaining = L - i          # digits from here to the end, inclusive
        cells.append(d)
        if grouped and remaining > 1 and (remaining - 1) % 3 == 0:
            cells.append(Sym('group', 'group_char'))
    if neg:
        cells = [45] + cells
    return cells


def wrappers(prog):
    res = []
    for f in prog.functions:
        if not f.file.endswith('_to_string.cpp') or '/format/detail/' not in f.file:
            continue
        if f.short in ('convert', 'checkAddGroupChar'):
            continue
        if not f.name.startswith('celma::format::detail::') or '(anonymous namespace)' in f.name:
            continue        # file-local helpers are analysed where the wrappers call them
        res.append(f)
    return res


def p2p3(chk, prog, lens):
    ws = wrappers(prog)
    # the conversion must be the same in every build: a counter or pointer that is advanced inside assert() stands
    # still when the unit is compiled with -DNDEBUG (the analysis itself sees the -UNDEBUG expansion)
    from ..rules import assert_side_effects
    # ... and for every caller: the conversion functions are pure functions of their arguments - a function-local
    # static that is not const (a scratch buffer, a cache) is shared by all callers and all threads, and the text
    # returned to one caller can hold the digits of another
    for f in prog.functions:
        if '/format/detail/' in f.file and f.body is not None:
            for x in f.walk():
                for d in (x.get('decls', []) if x.get('k') == 'DeclStmt' else []):
                    if d.get('static') and not (d.get('t') or '').startswith('const ') and \
                            ' const' not in (d.get('t') or ''):
                        chk.check(False, 'P2', f.name, 'the conversion keeps no state between calls (no non-const '
                                  'function-local static)', f.loc(x), 'static %s %s is shared by all callers: the '
                                  'result is not a function of the argument alone' % (d.get('t'), d.get('name')))
    # ... and the pointer into the result string that the digits are written through stays valid: between taking a
    # pointer to an element of a local std::string and the end of the function no member that may reallocate or move
    # the characters (insert, append, push_back, resize, reserve, erase, assign, +=, clear, shrink_to_fit) is called
    # on that string - beyond the small-string capacity the digits would go into freed memory
    REALLOC = ('insert', 'append', 'push_back', 'resize', 'reserve', 'erase', 'assign', 'operator+=', 'clear',
               'shrink_to_fit', 'replace', 'operator=', 'swap')
    for f in prog.functions:
        if '/format/detail/' not in f.file or f.body is None:
            continue
        strings = {d['name']: d.get('did') for x in f.walk() if x.get('k') == 'DeclStmt' for d in x.get('decls', [])
                   if 'basic_string' in (d.get('t') or '') and not (d.get('t') or '').rstrip().endswith('&')}
        if not strings:
            continue
        for x in f.walk():
            for d in (x.get('decls', []) if x.get('k') == 'DeclStmt' else []):
                t = (d.get('t') or '')
                init = d.get('init')
                if not (t.rstrip().endswith('*') or t.rstrip().endswith('*const')) or not isinstance(init, dict):
                    continue
                src = [n_ for n_ in strings if any(y.get('k') == 'DeclRefExpr' and y['ref'].get('name') == n_
                                                   for y in walk(init))]
                if not src or f.cfg.position(x) is None:
                    continue
                pos = f.cfg.position(x)
                seen = f.cfg.reach((pos[0], pos[1] + 1))
                for c in f.calls():
                    if c.get('k') in ('CXXMemberCallExpr', 'CXXOperatorCallExpr') and \
                            ((c.get('callee') or '').split('::')[-1] in REALLOC) and f.cfg.position(c) in seen:
                        obj = object_of(c) if c.get('k') == 'CXXMemberCallExpr' else (call_args(c)[0] if call_args(c) else None)
                        if obj is not None and any(y.get('k') == 'DeclRefExpr' and y['ref'].get('name') in src
                                                   for y in walk(obj)):
                            chk.check(False, 'P2', f.name, 'the pointer into the result string stays valid until the '
                                      'digits are written', f.loc(c), '%s() on %s after the pointer %s was taken: the '
                                      'string may reallocate' % ((c.get('callee') or '').split('::')[-1], src[0], d['name']))
    for f in prog.functions:
        if '/format/detail/' in f.file and f.body is not None:
            for y in assert_side_effects(f):
                chk.check(False, 'P2', f.name, 'no state change inside assert(): the conversion is the same with and '
                          'without NDEBUG', f.loc(y), 'the operand of assert() modifies a variable; with -DNDEBUG the '
                          'modification does not happen')
    chk.require(len(ws) >= 32, 'only %d conversion wrappers found (expected 32)' % len(ws))
    for f in ws:
        grouped = f.short.startswith('grouped')
        neg = 'neg' in f.short.lower()
        buffer_variant = f.params and f.params[0]['t'] == 'char *'
        vparam = f.params[1 if buffer_variant else 0]
        vt = base_type(vparam['t'])
        bits = UINT_BITS.get(vt) or SINT_BITS.get(vt)
        chk.require(bits in WIDTHS, 'unexpected value type %s in %s' % (vt, f.key))
        chk.check((vt in SINT_BITS) == neg, 'P3', f.name, 'signedness of the value parameter matches the variant',
                  f.loc())
        for L in range(1, MAXLEN[bits] + 1):
            m = Machine(prog, L, None)
            m.val_bits = bits
            if neg:
                m.val_max = 1 << (bits - 1)       # the magnitude of a negative value of a signed type
            env = {}
            for p in f.params:
                if p['t'] == 'char *':
                    env[p['name']] = [Sym('ptr', 'buf', 0)]
                elif p is vparam:
                    env[p['name']] = [Sym('val', 'value', 0)]
                else:
                    env[p['name']] = [Sym('group', 'group_char')]
            ret = None
            try:
                m.stmt(f.body, env)
            except Return as r:
                ret = r.v
            except Unsupported as u:
                raise AnalysisBroken('%s (L=%d): not interpretable: %s' % (f.key, L, u))
            except Lossy as e:
                chk.check(False, 'P2', f.name, 'the value is never converted to a type that cannot hold it [%s%d digits]'
                          % ('grouped ' if grouped else '', L), f.loc(), str(e))
                continue
            sym = 'abs(value)' if neg else 'value'
            what = '%s, %d digits' % ('grouped ' if grouped else '' + ('negative' if neg else 'unsigned'), L)
            exp = expected_cells(sym, L, grouped, neg)
            total = len(exp)
            # value handed to the length function and to convert is the same symbol
            okv = bool(m.length_args) and all(a == Sym('val', sym, 0) for _, a in m.length_args) and \
                bool(m.convert_args) and all(ca[1] == Sym('val', sym, 0) and ca[2] == L for ca in m.convert_args)
            lenfn_ok = all(s == 'int%d_str_length' % bits for s, _ in m.length_args)
            detail = ''
            if neg:
                src = m.neg_of.get('abs(value)')
                if not src or src[0] != 'value' or src[1] != bits:
                    okv = False
                    detail = 'negation is not taken in the %d-bit unsigned type: %s' % (bits, src)
            if buffer_variant:
                region = m.regions.get('buf', {})
                size_ok = ret == total
            else:
                okr = isinstance(ret, Sym) and ret.kind == 'string'
                region = m.regions.get(ret.a, {}) if okr else {}
                size_ok = okr and m.region_size.get(ret.a) == total
            cells = [region.get(i) for i in range(total)]
            # the most significant digit may be written as '0'+v or '0'+(v%10): v < 10 there (P1)
            top = 1 if neg else 0
            norm = list(cells)
            if len(norm) > top and norm[top] == Sym('chr', sym, L - 1):
                norm[top] = Sym('chrlast', sym, L - 1)
            layout_ok = norm == exp
            nul_ok = region.get(total) == 0
            stray = sorted(k for k in region if k < 0 or k > total)
            good = okv and lenfn_ok and size_ok and layout_ok and nul_ok and not stray
            if not good and not detail:
                detail = 'cells=%s expected=%s NUL@%d=%r return/size ok=%s stray writes=%s length/convert args ok=%s' % (
                    cells, exp, total, region.get(total), size_ok, stray, okv and lenfn_ok)
            chk.check(good, 'P2', f.name, 'exact cell layout [%s%s, %d digits, %s]' % (
                'grouped ' if grouped else '', 'negative' if neg else 'unsigned', L,
                'buffer' if buffer_variant else 'string'), f.loc(), detail)
            if good and L in (1, 4, 7) and len(chk.samples) < 10:
                chk.samples.append({'function': f.name, 'digits': L, 'cells': [repr(c) for c in cells],
                                    'nul_index': total})
        # exhaustiveness of the switch for the lengths the length function can return
        chk.check(set(lens.get(bits, [])) <= set(range(1, MAXLEN[bits] + 1)), 'P2', f.name,
                  'every length the length function can return is handled', f.loc())


def forwards_all(f, c):
    """the call hands over exactly the dispatcher's own parameters, in order, none defaulted"""
    from ..rules import call_args
    args = call_args(c)
    if len(args) != len(f.params):
        return False, 'passes %d arguments for %d parameters' % (len(args), len(f.params))
    for p, a in zip(f.params, args):
        if a.get('defarg'):
            return False, 'parameter %s is not forwarded (the callee\'s default is used)' % p['name']
        names = [x['ref']['name'] for x in walk(a) if x.get('k') == 'DeclRefExpr' and x['ref'].get('sto') == 'param']
        if names != [p['name']]:
            return False, 'argument for %s is built from %s' % (p['name'], names)
    return True, ''


def p3_dispatch(chk, prog):
    # detail::(grouped)intNNtoString( [buffer,] value [, group_char])
    n = 0
    for f in prog.functions:
        if not f.name.startswith('celma::format::detail::') or '/celma/format/detail/' not in f.file:
            continue
        if not f.file.endswith('_to_string.hpp'):
            continue
        n += 1
        buffer_variant = f.params[0]['t'] == 'char *'
        vparam = f.params[1 if buffer_variant else 0]
        vt = base_type(vparam['t'])
        bits = SINT_BITS.get(vt)
        chk.require(bits is not None, 'dispatcher %s takes unsigned value' % f.key)
        lo, hi = -(1 << (bits - 1)), (1 << (bits - 1)) - 1
        bad = None
        for v in (lo, lo + 1, -2, -1, 0, 1, 2, hi - 1, hi):
            seen = []

            def cb(it, node, seen=seen):
                seen.append(node.get('callee', '').split('::')[-1])
                return 7
            cbs = {}
            for c in f.calls():
                q = c.get('callee', '')
                if q.startswith('celma::format::detail::'):
                    cbs[q] = cb
            cbs['strcpy'] = cb
            env = {vparam['name']: v, 'buffer': 1000, 'group_char': 39}
            out = None
            for _ in range(8):
                it = Interp(f, env, callbacks=cbs)
                try:
                    out = it.run(f.body)
                    break
                except NeedAtom as na:
                    del seen[:]
                    env[na.key] = 1        # opaque temporaries (std::string( "0"), ...)
                except boolshape.Unsupported as e:
                    raise AnalysisBroken('%s not interpretable: %s' % (f.key, e))
            if out is None:
                raise AnalysisBroken('%s not interpretable' % f.key)
            want_neg = v < 0
            called_neg = any('neg' in s.lower() for s in seen)
            called_uns = any('uint' in s.lower() for s in seen)
            if v < 0 and not (called_neg and not called_uns):
                bad = (v, seen)
            if v > 0 and not (called_uns and not called_neg):
                bad = (v, seen)
            if v == 0:
                zero_ok = called_uns or (not called_neg and (('strcpy' in seen and out == ('return', 1)) or
                                                             not buffer_variant))
                if not zero_ok:
                    bad = (v, seen, out)
        chk.check(bad is None, 'P3', f.name, 'negative variant exactly for value < 0, zero handled [%s]' % (
            'buffer' if buffer_variant else 'string'), f.loc(), 'counter example: %s' % (bad,))
        # the callee names must belong to the same width / grouping
        for c in f.calls():
            q = c.get('callee', '')
            if q.startswith('celma::format::detail::'):
                s = q.split('::')[-1]
                same = str(bits) in s and (s.startswith('grouped') == f.short.startswith('grouped'))
                chk.check(same, 'P3', f.name, 'dispatches to the variant of the same width (%s)' % s, f.loc(c))
                ok, why = forwards_all(f, c)
                chk.check(ok, 'P3', f.name, 'forwards buffer, value and group character unchanged to %s' % s,
                          f.loc(c), why)
    chk.require(n >= 16, 'only %d signed dispatchers found' % n)
    # public templates: width by sizeof, signedness by type
    m = 0
    for f in prog.functions:
        if f.name not in ('celma::format::int2string', 'celma::format::grouped_int2string'):
            continue
        m += 1
        buffer_variant = f.params[0]['t'] == 'char *'
        vt = base_type(f.params[1 if buffer_variant else 0]['t'])
        signed = vt in SINT_BITS
        bits = SINT_BITS.get(vt) or UINT_BITS.get(vt)
        cs = [c for c in f.calls() if c.get('callee', '').startswith('celma::format::detail::')]
        good = len(cs) == 1
        if good:
            s = cs[0]['callee'].split('::')[-1]
            want = ('grouped' if f.short.startswith('grouped') else '') + ('Int' if signed else 'Uint') + \
                str(bits) + 'toString'
            good = s.lower() == want.lower()
            if good:
                good, _ = forwards_all(f, cs[0])
        chk.check(good, 'P3', f.name, 'int2string<%s> selects the %d-bit %s conversion [%s]' % (
            vt, bits, 'signed' if signed else 'unsigned', 'buffer' if buffer_variant else 'string'), f.loc())
    chk.require(m >= 32, 'only %d public dispatcher instantiations found' % m)


def p4_string_to(chk, prog):
    """converting the text back: stringTo<T>() for every integral T uses a std::sto* function whose result type
    covers the whole range of T (the text of every T value can be parsed) and returns its result"""
    rng = {'stoi': (-(1 << 31), (1 << 31) - 1), 'stol': (-(1 << 63), (1 << 63) - 1),
           'stoll': (-(1 << 63), (1 << 63) - 1), 'stoul': (0, (1 << 64) - 1), 'stoull': (0, (1 << 64) - 1)}
    types = {'signed char': (-128, 127), 'char': (-128, 127), 'unsigned char': (0, 255), 'short': (-(1 << 15), (1 << 15) - 1),
             'unsigned short': (0, (1 << 16) - 1), 'int': (-(1 << 31), (1 << 31) - 1),
             'unsigned int': (0, (1 << 32) - 1), 'long': (-(1 << 63), (1 << 63) - 1),
             'unsigned long': (0, (1 << 64) - 1), 'long long': (-(1 << 63), (1 << 63) - 1),
             'unsigned long long': (0, (1 << 64) - 1)}
    fs = [f for f in prog.functions if f.name == 'celma::format::stringTo' and f.d.get('ret') in types]
    chk.require(len(fs) >= 8, 'stringTo<integral> specialisations found: %d' % len(fs))
    for f in sorted(fs, key=lambda x: x.line):
        t = f.d['ret']
        calls = [c for c in f.calls() if (c.get('callee') or '').startswith('std::sto')]
        rets = [x for x in f.walk() if x.get('k') == 'ReturnStmt']
        fn = (calls[0]['callee'].split('::')[-1]) if len(calls) == 1 else None
        direct = len(rets) == 1 and children(rets[0]) and any(x is calls[0] for x in walk(children(rets[0])[0])) \
            if fn else False
        lo, hi = types[t]
        ok = fn in rng and direct and rng[fn][0] <= lo and hi <= rng[fn][1]
        # an unsigned destination parsed with a signed function of the same width loses the upper half; a signed
        # destination parsed with an unsigned function accepts its own negative texts (wrap) - the sign must fit too
        if ok and lo < 0 and rng[fn][0] == 0:
            ok = False
        chk.check(ok, 'P4', f.name, 'stringTo<%s>() parses with a function that covers the whole range of the type' % t,
                  f.loc(), 'uses std::%s (range %s) for values %d..%d' % (fn, rng.get(fn), lo, hi))


def run(chk):
    units = units_matching('format/detail/int', 'format/detail/grouped_int') + \
        [os.path.join(VERIF, 'drivers', 'int2string.cpp')]
    chk.require(len(units) == 9, 'expected the 8 conversion units + driver, got %d' % len(units))
    prog = load_program(units)
    chk.units = units
    chk.level = 'proof'
    chk.explanation = (
        'Proof by exhaustive abstract evaluation of the source: (P1) interval partition of the four digit-count '
        'decision trees over the complete unsigned range, (P2) partial evaluation of every conversion wrapper '
        'including the inlined fall-through switch for every possible digit count with the numeric value kept '
        'symbolic (digit stream value%10, value/=10) giving the exact cell layout, NUL position, returned length '
        'and absence of stray writes, (P3) negation taken in the same-width unsigned type, dispatchers choose the '
        'negative variant exactly for value < 0 and the width by sizeof. Together: all values of all eight integer '
        'types, including all 2^64 64-bit values, without enumerating them.')
    chk.assumptions = [
        "-value on int32_t/int64_t is formally undefined for the minimum value; with the repository's compilers it "
        'yields the intended two\'s-complement pattern after conversion to the unsigned type (8 sites)',
        'unsigned arithmetic value % 10, value / 10 as specified by C++',
        '"converting the text back yields the original" relies on std::strto* (trusted library), not decided',
        'the final digit cell \'0\'+value/10^(n-1) is a single digit because P1 gives value < 10^n',
    ]
    chk.trusted_base = ['clang 14 front end', '/verif/tools/celma-facts.cc', '/verif/cv/digits.py symbolic interpreter']
    chk.rule('P1', 'digit count correct on the whole range of every width', 40)
    chk.rule('P2', 'exact cell layout for every digit count of every conversion function', 300)
    chk.rule('P3', 'wrappers and dispatchers: sign, width, value identity', 60)
    lens = p1(chk, prog)
    p2p3(chk, prog, lens)
    p3_dispatch(chk, prog)
    chk.rule('P4', 'the inverse conversion stringTo<T>() can parse the text of every value of T', 8)
    p4_string_to(chk, prog)
