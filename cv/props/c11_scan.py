"""C11-R7: searching observers return what std::string returns - decided as a linear-search proof.

For a member that scans candidate positions and tests each one (find, rfind, find_first/last_(not_)of,
contains) the std::string result is 'the first (last) candidate position whose test succeeds, else
npos/false'.  That statement is proved for every content, needle and start position at once from
facts that are visible in the code (nothing is executed):

  V1  a failure result returned before the scan starts: no candidate position exists at all
  V2  the first tested position: no candidate lies before (after) it
  V3  every tested position is a candidate (so a reported match is a legal result)
  V4  a result returned inside the scan is the tested position and the test at it succeeded - the
      test is identified semantically: a memcmp of text+t with the needle over its whole length, an
      element of the text at t compared with the character, strchr( set, element at t)
  V5  the scan moves on only after the test at the tested position failed
  V6  the next tested position is exactly one further (one less)
  V7  the scan ends only when no candidate position is left
  V8  after the scan the failure value is returned

V2+V5+V6+V7 make 'all candidates before the current one were rejected' an inductive invariant, V3+V4
make the reported position a matching candidate, so the result is the first (last) matching
candidate.  Single-position observers (starts_with, ends_with) are the degenerate case.
compare() is decided as: sign of memcmp over the common length, else sign of the length difference.

The scan is decomposed with the primitives of Engine C (bounds.py): statements before the loop,
loop initialisation, condition, body and increment are evaluated separately on a symbolic head value
of the scan variable; memcmp/element/strchr evaluations leave observation facts in the state."""
from ..bounds import Engine, Ptr, Obj, UNKNOWN, St, btype
from ..lin import Lin, lin, ge, le, lt, gt, eq, entails, feasible, TooBig
from ..facts import children, walk, strip_casts, strip_all_casts, CALL_KINDS

NPOS = (1 << 64) - 1
LOOPS = ('ForStmt', 'WhileStmt', 'DoStmt')


def sat(cons):
    try:
        return feasible(cons)
    except TooBig:
        return True


def holds(st, *cs):
    flat = []
    for c in cs:
        flat.extend(c if isinstance(c, list) else [c])
    return all(entails(st.cons, c) for c in flat)


def equal(st, a, b):
    return isinstance(a, Lin) and isinstance(b, Lin) and holds(st, ge(a, b), le(a, b))


def differs(st, a, b):
    return isinstance(a, Lin) and isinstance(b, Lin) and (holds(st, lt(a, b)) or holds(st, gt(a, b)))


class Spec:
    """order: 'first' | 'last' | 'at';  cand( j) -> constraints;  test: ('substr', region, m) | ('char_eq', ch) |
    ('char_ne', ch) | ('in_set', region) | ('not_in_set', region);  result: 'index' | 'bool';  domain: constraints"""

    def __init__(self, order, cand, test, result, domain, at=None):
        self.order, self.cand, self.test, self.result, self.domain, self.at = order, cand, test, result, domain, at


def elem_values(st, region, off):
    """values observed for region[ off] on this path"""
    out = []
    for g in st.ghost:
        if g[0] == 'elem' and g[1].region == region and equal(st, g[1].off, off):
            out.append(g[2])
    return out


def verdict(st, spec, t, text='this.mString'):
    """'match' / 'mismatch' / None: what the observation facts of the path say about the test at position t"""
    kind = spec.test[0]
    if kind == 'substr':
        _, region, m = spec.test
        for g in st.ghost:
            if g[0] != 'memcmp':
                continue
            a, b, n, r = g[1:]
            if a.region != text:
                a, b = b, a
            if a.region == text and b.region == region and equal(st, a.off, t) and equal(st, b.off, lin(0)) and \
                    equal(st, n, m):
                if equal(st, r, lin(0)):
                    return 'match'
                if differs(st, r, lin(0)):
                    return 'mismatch'
        # a differing character inside the window is a mismatch too (pre-filter on the first character)
        for g in st.ghost:
            if g[0] == 'elem' and g[1].region == text and holds(st, ge(g[1].off, t), lt(g[1].off, t + m)):
                k = g[1].off - t
                for y in elem_values(st, region, k):
                    if differs(st, g[2], y):
                        return 'mismatch'
        return None
    if kind in ('char_eq', 'char_ne'):
        ch = spec.test[1]
        for x in elem_values(st, text, t):
            if equal(st, x, ch):
                return 'match' if kind == 'char_eq' else 'mismatch'
            if differs(st, x, ch):
                return 'mismatch' if kind == 'char_eq' else 'match'
        return None
    if kind in ('in_set_n', 'not_in_set_n'):
        region = spec.test[1]
        for g in st.ghost:
            if g[0] == 'inset_n' and g[1] == region and equal(st, g[2], t):
                found = g[3]
                if kind == 'in_set_n':
                    return 'match' if found else 'mismatch'
                return 'mismatch' if found else 'match'
        return None
    if kind in ('in_set', 'not_in_set'):
        region = spec.test[1]
        xs = elem_values(st, text, t)
        for g in st.ghost:
            if g[0] == 'inset' and g[1].region == region and equal(st, g[1].off, lin(0)) and \
                    any(equal(st, g[2], x) for x in xs):
                found = g[3]
                if kind == 'in_set':
                    return 'match' if found else 'mismatch'
                return 'mismatch' if found else 'match'
        return None
    return None


class Scan:
    """decomposed evaluation of one searching member against its Spec"""

    def __init__(self, chk, eng, f, spec, tag, rule='R7'):
        self.chk, self.eng, self.root, self.spec, self.tag, self.rule = chk, eng, f, spec, tag, rule
        self.n_checks = 0
        self.n_loops = 0
        self.fail_value = lin(NPOS) if spec.result == 'index' else lin(0)

    def check(self, ok, what, f, node, detail=''):
        self.n_checks += 1
        self.chk.check(ok, self.rule, self.root.name, '%s [%s]' % (what, self.tag), f.loc(node) if node else f.loc(),
                       detail)

    # -------------------------------------------------------------- helpers
    def no_candidate(self, st, extra=()):
        j = self.eng.fresh('cand', st, 'unsigned long')
        cons = st.cons + self.spec.cand(j)
        for e in extra:
            cons = cons + e(j)
        return not sat(cons)

    def is_fail(self, st, v):
        return equal(st, v, self.fail_value)

    def trail(self, st):
        return '; '.join(st.trail[-6:])

    # -------------------------------------------------------------- driver
    def run(self, setup=None):
        eng, f = self.eng, self.root
        eng.root = f.name
        st = St()
        for p in f.params:
            eng.bind_param(st, f, p)
        eng.assume_invariants(st, f)
        st.assume(*self.spec.domain)
        if setup:
            setup(eng, st, f)
        if not st.ok():
            return
        mark = len(eng.obligations)
        try:
            finals = self.block(children(f.body), [st], f, 'before')
            for s in finals:
                if s.status == 'return':
                    self.outside_return(s, f, None, s.phase if hasattr(s, 'phase') else 'before')
        finally:
            del eng.obligations[mark:]        # bounds obligations belong to C10

    def block(self, stmts, states, f, phase):
        """executes a statement list; returns the states that returned (tagged with the phase in which they did)"""
        eng = self.eng
        done = []
        live = list(states)
        scanned = False
        for stmt in stmts:
            if not live:
                break
            k = stmt.get('k')
            if k in LOOPS and not scanned:
                scanned = True
                self.n_loops += 1
                rets, live = self.loop(stmt, live, f)
                done.extend(rets)
                phase = 'after'
                continue
            fwd = self.forwarding(stmt, f)
            if fwd is not None and not scanned:
                call, callee = fwd
                for s in live:
                    done.extend(self.forward(call, callee, s, f, phase))
                live = []
                break
            if k == 'CompoundStmt':
                sub = self.block(children(stmt), live, f, phase)
                done.extend(sub)
                live = self.fallthrough
                continue
            nxt = eng.stmt(stmt, live, f)
            live = []
            for s in nxt:
                if s.status == 'normal':
                    live.append(s)
                else:
                    s.phase = phase
                    done.append(s)
        self.fallthrough = live
        return done

    def forwarding(self, stmt, f):
        """return <call of a member of the same class that has a body>;"""
        if stmt.get('k') != 'ReturnStmt' or not children(stmt):
            return None
        x = strip_all_casts(children(stmt)[0])
        while x.get('k') in ('ParenExpr', 'ExprWithCleanups'):
            x = strip_all_casts(children(x)[0])
        if x.get('k') != 'CXXMemberCallExpr':
            return None
        tgt = self.eng.prog.by_key.get(x.get('ckey'))
        if not tgt or tgt[0].body is None or tgt[0].cls != f.cls:
            return None
        objn, _ = self.eng.args_of(x)
        if objn is not None and strip_casts(objn).get('k') != 'CXXThisExpr':
            return None
        if not any(y.get('k') in LOOPS for y in tgt[0].walk()) and \
                not any(self.forwarding(c, tgt[0]) for c in children(tgt[0].body)):
            return None
        return x, tgt[0]

    def forward(self, call, callee, st, f, phase):
        eng = self.eng
        _, args = eng.args_of(call)
        res = []
        combos = [([], st)]
        for a in args:
            nxt = []
            for vals, s in combos:
                for v, s1 in eng.ev(a, s, f):
                    nxt.append((vals + [v], s1))
            combos = nxt
        for vals, s in combos:
            if s.status != 'normal':
                s.phase = phase
                res.append(s)
                continue
            saved = s.vars
            s.vars = {}
            for p, v in zip(callee.params, vals):
                if isinstance(v, Lin):
                    v = eng.convert(s, v, p['t'])
                s.vars[p['name']] = v
            for p in callee.params[len(vals):]:
                if isinstance(p.get('default'), dict):
                    s.vars[p['name']] = eng.ev(p['default'], s, callee)[0][0]
            eng.depth += 1
            try:
                res.extend(self.block(children(callee.body), [s], callee, phase))
            finally:
                eng.depth -= 1
        return res

    # -------------------------------------------------------------- results outside the scan
    def outside_return(self, s, f, node, phase):
        spec = self.spec
        v = s.ret
        if spec.order == 'at':
            return self.single_position(s, f)
        if not isinstance(v, Lin):
            self.check(False, 'result is tracked', f, node, repr(v))
            return
        if self.is_fail(s, v):
            if phase == 'before':
                self.check(self.no_candidate(s), 'V1 a failure result before the scan only when no candidate position '
                           'exists', f, node, 'a candidate position is possible on the path [%s]' % self.trail(s))
            else:
                self.check(True, 'V8 failure value after the scan', f, node)
            return
        if phase == 'after':
            self.check(False, 'V8 after the scan the failure value is returned', f, node,
                       'returns %r on the path [%s]' % (v, self.trail(s)))
        else:
            # a positive result without a scan: must be a matching candidate with no candidate before it
            t = v if spec.result == 'index' else None
            ok = t is not None and holds(s, *spec.cand(t)) and verdict(s, spec, t) == 'match' and \
                self.no_candidate(s, [lambda j: [lt(j, t)] if spec.order == 'first' else [gt(j, t)]])
            self.check(ok, 'a result returned without scanning is the first/last matching candidate', f, node,
                       'returns %r on the path [%s]' % (v, self.trail(s)))

    def single_position(self, s, f):
        spec = self.spec
        v = s.ret
        t0 = spec.at
        if not isinstance(v, Lin):
            self.check(False, 'result is tracked', f, None, repr(v))
            return
        if equal(s, v, lin(1)):
            s1 = s
            ok = holds(s1, *spec.cand(t0)) and verdict(s1, spec, t0) == 'match'
            self.check(ok, 'true only if the position is inside the text and the test at it succeeded', f, None,
                       'returns true on the path [%s]' % self.trail(s))
        elif equal(s, v, lin(0)):
            ok = not sat(s.cons + spec.cand(t0)) or verdict(s, spec, t0) == 'mismatch'
            self.check(ok, 'false only if the position does not exist or the test at it failed', f, None,
                       'returns false on the path [%s]' % self.trail(s))
        else:
            self.check(False, 'result is true or false', f, None, repr(v))

    # -------------------------------------------------------------- membership test written as an inner loop
    def inner_scan(self, eng, n, states, f, t):
        """for ( k = 0; k < count; ++k) if (set[ k] == text[ t]) <leave>;  - decided like the outer scan: starts at
        the first character of the set, advances by one, ends only when all `count` characters were compared, goes
        on only after a character differed and leaves early only on an equal character.  The states that leave
        early carry the fact 'text[ t] is in the set', those that end the loop 'is not in the set'."""
        spec = self.spec
        region, count = spec.test[1], spec.test[2]
        if n.get('k') != 'ForStmt':
            return None
        init, _cv, cond, inc, body = (n.get('c', []) + [None] * 5)[:5]
        out = []
        for s_in in states:
            if s_in.status != 'normal':
                out.append(s_in)
                continue
            cur = [s for s in eng.stmt(init, [s_in], f) if s.status == 'normal'] if init is not None else [s_in]
            vars_, fields, havoc_this, incs, decs = eng.modified_in([cond, inc], f)
            if len(vars_) != 1:
                self.check(False, 'the membership loop has one position variable', f, n, str(sorted(vars_)))
                return None
            var = sorted(vars_)[0]
            for s0 in cur:
                k0 = s0.vars.get(var)
                self.check(equal(s0, k0, lin(0)), 'the membership loop starts at the first character of the set', f,
                           init or n, 'start %r' % (k0,))
                head = s0.copy()
                k = eng.fresh('setpos', head, 'unsigned long')
                head.assume(ge(k, 0))
                head.vars[var] = k
                for truth, s1 in eng.cond(cond, head, f):
                    if not truth:
                        self.check(holds(s1, ge(k, count)), 'the membership loop ends only when all characters of the '
                                   'set were compared', f, cond, 'ends at %r of %r' % (k, count))
                        s1.ghost.append(('inset_n', region, t, False))
                        out.append(s1)
                        continue
                    self.check(holds(s1, lt(k, count)), 'the membership loop compares only characters of the set', f,
                               cond, 'position %r, count %r' % (k, count))
                    for r in eng.stmt(body, [s1], f):
                        # what does the path know about  set[ k]  versus  text[ t] ?
                        rel = None
                        for x in elem_values(r, 'this.mString', t):
                            for y in elem_values(r, region, k):
                                if equal(r, x, y):
                                    rel = 'eq'
                                elif differs(r, x, y):
                                    rel = rel or 'ne'
                        if r.status in ('return', 'break'):
                            self.check(rel == 'eq', 'the membership loop is left early only on an equal character', f,
                                       body, 'relation %s on the path [%s]' % (rel, self.trail(r)))
                            r.ghost.append(('inset_n', region, t, True))
                            if r.status == 'break':
                                r.status = 'normal'
                            out.append(r)
                        elif r.status in ('normal', 'continue'):
                            r.status = 'normal'
                            self.check(rel == 'ne', 'the membership loop goes on only after a character differed', f,
                                       body, 'relation %s on the path [%s]' % (rel, self.trail(r)))
                            for _, s2 in eng.ev(inc, r, f):
                                k2 = s2.vars.get(var)
                                self.check(equal(s2, k2, k + 1), 'the membership loop advances by one character', f, inc,
                                           'next %r after %r' % (k2, k))
                        else:
                            out.append(r)
        return out

    # -------------------------------------------------------------- the scan
    def loop(self, n, states, f):
        eng, spec = self.eng, self.spec
        k = n['k']
        kids = n.get('c', [])
        init = cond = inc = body = None
        if k == 'ForStmt':
            init, _cv, cond, inc, body = (kids + [None] * 5)[:5]
        elif k == 'WhileStmt':
            cond, body = kids[-2], kids[-1]
        else:
            self.check(False, 'scan loop has a recognised form', f, n, k)
            return [], []
        rets = []
        cur = states
        if init is not None:
            cur = [s for s in eng.stmt(init, cur, f) if s.status == 'normal']
        vars_, fields, havoc_this, incs, decs = eng.modified_in([cond, inc, body], f)
        declared = set()
        for x in walk(body):
            if x.get('k') == 'DeclStmt':
                declared.update(d['name'] for d in x.get('decls', []))
        scan_vars = [v for v in vars_ if v not in declared]
        self.check(len(scan_vars) == 1 and not fields and not havoc_this, 'the scan changes exactly one position '
                   'variable and nothing of the object', f, n, 'modified: %s %s' % (sorted(scan_vars), sorted(fields)))
        if len(scan_vars) != 1:
            return [], []
        var = scan_vars[0]
        exits = []
        all_exits = []
        for s0 in cur:
            h0 = s0.vars.get(var)
            if not isinstance(h0, Lin):
                self.check(False, 'start value of the scan is tracked', f, n, repr(h0))
                continue

            def iteration(head, h, direction):
                """one symbolic iteration from the head value h; returns (direction seen, exit states)"""
                seen = None
                exits = []
                for truth, s1 in (eng.cond(cond, head, f) if cond is not None else [(True, head)]):
                    t = s1.vars.get(var)
                    if not truth:
                        exits.append((s1, h))
                        continue
                    if equal(s1, t, h):
                        d = 'up'
                    elif equal(s1, t, h - 1):
                        d = 'down'
                    else:
                        self.check(False, 'V6 the tested position is the head of the scan (or one below it)', f, cond,
                                   'tested %r, head %r' % (t, h))
                        continue
                    if direction is not None and d != direction:
                        self.check(False, 'V6 the scan keeps its direction', f, cond, '%s after %s' % (d, direction))
                        continue
                    seen = seen or d
                    self.check(holds(s1, *spec.cand(t)), 'V3 every tested position is a candidate position', f, cond,
                               'tested position %r is not provably a candidate on the path [%s]' % (t, self.trail(s1)))
                    if spec.test[0] in ('in_set_n', 'not_in_set_n'):
                        eng.cfg['loop_override'] = lambda e_, n_, sts, fn_: self.inner_scan(e_, n_, sts, fn_, t)
                    try:
                        body_results = eng.stmt(body, [s1], f)
                    finally:
                        eng.cfg.pop('loop_override', None)
                    for r in body_results:
                        if r.status == 'return':
                            v = r.ret
                            good = isinstance(v, Lin) and (equal(r, v, t) if spec.result == 'index'
                                                           else equal(r, v, lin(1)))
                            vd = verdict(r, spec, t)
                            self.check(good and vd == 'match', 'V4 a result inside the scan is the tested position '
                                       'and its test succeeded', f, body,
                                       'returns %r at tested position %r with test outcome %s on the path [%s]' % (
                                           v, t, vd, self.trail(r)))
                            continue
                        if r.status in ('normal', 'continue'):
                            r.status = 'normal'
                            vd = verdict(r, spec, t)
                            self.check(vd == 'mismatch', 'V5 the scan moves on only after the test at the tested '
                                       'position failed', f, body, 'test outcome %s at position %r on the path [%s]' % (
                                           vd, t, self.trail(r)))
                            nxt = [r]
                            if inc is not None:
                                nxt = [s2 for _, s2 in eng.ev(inc, r, f)]
                            for s2 in nxt:
                                h2 = s2.vars.get(var)
                                want = t + 1 if d == 'up' else t
                                self.check(equal(s2, h2, want), 'V6 the next head is exactly one position further', f,
                                           inc or body, 'next head %r after tested position %r' % (h2, t))
                            continue
                        self.check(False, 'the scan is left only by a result or by its condition', f, body,
                                   'status %s on the path [%s]' % (r.status, self.trail(r)))
                return seen, exits

            # first iteration: the head is the start value itself
            direction, exits = iteration(s0.copy(), h0, None)
            if direction is not None:
                # any later iteration: by V3 and V6 the head is one beyond (up) / equal to (down) a tested position,
                # and every tested position was a candidate
                head = s0.copy()
                tp = eng.fresh('tested', head, eng.var_type(f, var, n) or 'unsigned long')
                head.assume(*spec.cand(tp))
                h = tp + 1 if direction == 'up' else tp
                head.assume(ge(tp, h0) if direction == 'up' else lt(tp, h0))
                head.vars[var] = h
                if head.ok():
                    _, ex2 = iteration(head, h, direction)
                    exits.extend(ex2)
            else:
                direction = 'up' if spec.order == 'first' else 'down'
            # V2: nothing before the first head
            if direction == 'up':
                ok = self.no_candidate(s0, [lambda j, h0=h0: [lt(j, h0)]])
            else:
                ok = self.no_candidate(s0, [lambda j, h0=h0: [ge(j, h0)]])
            want_order = 'first' if direction == 'up' else 'last'
            self.check(ok and spec.order == want_order, 'V2 no candidate position lies before the first tested one '
                       '(scan direction %s for the %s match)' % (direction, spec.order), f, init or n,
                       'start %r on the path [%s]' % (h0, self.trail(s0)))
            for s1, h in exits:
                if not s1.ok():
                    continue
                if direction == 'up':
                    ok = self.no_candidate(s1, [lambda j, h=h: [ge(j, h)]])
                else:
                    ok = self.no_candidate(s1, [lambda j, h=h: [lt(j, h)]])
                self.check(ok, 'V7 the scan ends only when no candidate position is left', f, cond or n,
                           'a candidate remains when the scan ends with head %r on the path [%s]' % (h, self.trail(s1)))
            all_exits.extend(s1 for s1, _ in exits if s1.ok())
        return [], all_exits


# ------------------------------------------------------------------ compare

def check_compare(chk, eng, f, tag, a_off, a_len, b_region, b_off, b_len, domain, rule='R8'):
    """compare(): negative/zero/positive like std::string::compare of the two (sub)strings: the sign of memcmp over
    the common length if that is not zero, else the sign of the length difference"""
    eng.root = f.name
    st = St()
    for p in f.params:
        eng.bind_param(st, f, p)
    eng.assume_invariants(st, f)
    st.assume(*domain)
    if not st.ok():
        return 0
    mark = len(eng.obligations)
    finals = eng.exec_body(f, st)
    del eng.obligations[mark:]
    n = 0
    for s in finals:
        if s.status != 'return':
            continue
        v = s.ret
        n += 1
        if not isinstance(v, Lin):
            chk.check(False, rule, f.name, 'result is tracked [%s]' % tag, f.loc(), repr(v))
            continue
        # the memcmp over the common length
        fact = None
        for g in s.ghost:
            if g[0] != 'memcmp':
                continue
            a, b, cnt, r = g[1:]
            if a.region != 'this.mString':
                a, b = b, a
            if a.region == 'this.mString' and b.region == b_region and equal(s, a.off, a_off) and \
                    equal(s, b.off, b_off):
                # common length = min( a_len, b_len)
                if (holds(s, le(a_len, b_len)) and equal(s, cnt, a_len)) or \
                        (holds(s, ge(a_len, b_len)) and equal(s, cnt, b_len)):
                    fact = r
        if fact is None:
            chk.check(False, rule, f.name, 'the result is based on memcmp of the two texts over their common length '
                      '[%s]' % tag, f.loc(), 'no such comparison on the path [%s]' % '; '.join(s.trail[-6:]))
            continue
        if differs(s, fact, lin(0)):
            ok = (holds(s, lt(fact, 0)) and holds(s, lt(v, 0))) or (holds(s, gt(fact, 0)) and holds(s, gt(v, 0)))
            what = 'sign of the first difference'
        elif equal(s, fact, lin(0)):
            if holds(s, lt(a_len, b_len)):
                ok = holds(s, lt(v, 0))
            elif holds(s, gt(a_len, b_len)):
                ok = holds(s, gt(v, 0))
            elif equal(s, a_len, b_len):
                ok = equal(s, v, lin(0))
            else:
                ok = False
            what = 'sign of the length difference when the common part is equal'
        else:
            ok = False
            what = 'outcome of the comparison is decided on the path'
        chk.check(ok, rule, f.name, 'result has the %s [%s]' % (what, tag), f.loc(),
                  '' if ok else 'returns %r on the path [%s]' % (v, '; '.join(s.trail[-7:])))
    return n
