"""C10 — Fixed-capacity string never touches memory outside itself and stays well-formed.

Engine C over every member of FixedString<L> (instantiated for the capacity grid of the driver):
 O1 every read/write of mString (subscript, mem*, vsnprintf, std::string( ptr, n)) lies in [0, L];
    every access to a source argument lies inside its extent (strlen+1, length()+1, other's L+1,
    caller buffer count); local scratch arrays likewise
 O2 at every exit of every member: mLength <= L (incl. narrowing into the length type) and a NUL
    is known at mString[ mLength]
 O3 no silently wrapping size_t expression feeds an index, a length or a loop bound - for all
    argument values including npos and values far beyond L
Overloads taking iterators of the string are analysed for every combination of 'at the end marker' /
'inside the text' of the iterators handed in ([first, last) a valid range).
Not decided: 'length equals strlen' when the caller stores NULs (excluded by the statement),
iterator validity after mutation, overloads taking std::string iterators."""
import os
import re

from ..bounds import Engine, Ptr, Obj, Obligation, UNKNOWN, St, _ev_all, btype
from ..lin import Lin, lin, ge, le, lt, gt, eq, entails
from ..facts import AnalysisBroken, VERIF, load_program, children, strip_all_casts, walk, CALL_KINDS
from ..rules import callee_is, call_args


END = (1 << 64) - 1
ITER = re.compile(r'celma::common::detail::FixedString(Reverse)?Iterator<(const )?char, (const )?celma::common::'
                  r'FixedString<(\d+)>>$')


def capacity(cls):
    m = re.match(r'(?:const )?celma::common::FixedString<(\d+)>', cls or '')
    return int(m.group(1)) if m else None


def length_type(L):
    return 'unsigned char' if L < 256 else 'unsigned short' if L < 65536 else 'unsigned int' if L < 2 ** 32 else \
        'unsigned long'


def fs_fields(eng, st, obj, L):
    """length symbol and buffer region of a FixedString object called obj"""
    region = obj + '.mString'
    if region not in st.regions:
        st.regions[region] = lin(L + 1)
        st.fields[(obj, 'mString')] = Ptr(region, 0)
    key = (obj, 'mLength')
    ln = st.fields.get(key)
    if ln is None:
        ln = eng.named('%s.mLength' % obj, st, length_type(L))
        st.fields[key] = ln
        st.ftypes[key] = length_type(L)
    return ln, region


def invariants(eng, st, func, obj='this'):
    L = capacity(func.cls)
    if obj != 'this':
        for q in func.params:
            if q['name'] == obj:
                L = capacity(btype(q['t'].rstrip('&').strip()))
    if L is None:
        return []
    ln, region = fs_fields(eng, st, obj, L)

    def post(e, s, mode):
        cur = s.fields.get((obj, 'mLength'))
        if not isinstance(cur, Lin):
            return
        if mode == 'assume':
            e.add_nul(s, region, cur)
        else:
            _, when, node, f = mode
            held = e.has_nul(s, region, cur)
            e.obligations.append(Obligation(
                e.root, 'nul', 'content is NUL-terminated at its length %s' % when, held,
                f.loc(node) if (f is not None and node is not None) else (f.loc() if f is not None else ''),
                '' if held else 'no terminator known at mString[ %r]; known NUL positions: %s; path [%s]' % (
                    cur, s.nul.get(region, []), '; '.join(s.trail[-6:]))))
    return [('length within capacity 0 <= mLength <= L', [ge(ln, 0), le(ln, L)], post)]


def bind_param(eng, st, f, p):
    t = p['t']
    name = p['name'] or 'arg'
    base = btype(t.rstrip('&').strip())
    m = re.match(r'celma::common::FixedString<(\d+)>$', base)
    if m:
        S = int(m.group(1))
        ln, region = fs_fields(eng, st, name, S)
        st.assume(ge(ln, 0), le(ln, S))
        eng.add_nul(st, region, ln)
        st.vars[name] = Obj(name, 'celma::common::FixedString<%d>' % S)
        return True
    mi = ITER.match(base)
    if mi:
        # an iterator handed in by the caller: valid (end marker or inside the text) and bound to this string
        # (first2/last2: to another string of the same capacity)
        L2 = int(mi.group(4))
        target = 'this' if not name.endswith('2') else 'fs2'
        st.vars[name] = Obj(name, base)
        st.fields[(name, 'mpObject')] = Obj(target, 'celma::common::FixedString<%d>' % L2)
        ln, region = fs_fields(eng, st, target, L2)
        if target != 'this':
            st.assume(ge(ln, 0), le(ln, L2))
            eng.add_nul(st, region, ln)
        st.ftypes[(name, 'mIndex')] = 'unsigned long'
        if getattr(eng, 'iter_cases', {}).get(name, 'in') == 'end':
            st.fields[(name, 'mIndex')] = lin(END)
        else:
            ix = eng.named('%s.mIndex' % name, st, 'unsigned long')
            st.assume(lt(ix, ln))
            st.fields[(name, 'mIndex')] = ix
        return True
    if base.startswith('std::initializer_list<char>'):
        st.vars[name] = Obj(name, 'std::initializer_list<char>')
        sz = eng.named('%s.size()' % name, st, 'unsigned long')
        st.assume(le(sz, 1 << 60))
        st.fields[(name, 'size')] = sz
        st.regions[name + '.data'] = sz
        return True
    if base.startswith('std::basic_string<char') and not base.endswith('iterator'):
        st.vars[name] = Obj(name, 'std::string')
        eng.string_len(st, name)
        return True
    if t.replace('const ', '').strip() == 'char *' and name == 'str':
        # ( const char* str, ..., size_t count): the documented contract is 'count characters of str' - the
        # caller's array holds at least count characters and (as a C string) its terminator
        names = [q['name'] for q in f.params]
        cn = 'count2' if 'count2' in names else 'count' if 'count' in names else None
        if cn is None:
            return False
        eng.bind_cstring(st, name)
        cnt = eng.named(cn, st, 'unsigned long')
        ext = eng.named('extent(%s)' % name, st, 'unsigned long')
        st.assume(ge(ext, cnt), ge(ext, st.fields[(name, 'strlen')] + 1))
        st.regions[name] = ext
        return True
    if t.replace('const ', '').strip() == 'char *' and f.short == 'copy' and name == 'dest':
        # documented extent of the caller's buffer: count characters
        cnt = st.vars.get('count')
        if cnt is None:
            cnt = eng.named('count', st, 'unsigned long')
            st.vars['count'] = cnt
        st.regions['dest'] = cnt
        st.vars['dest'] = Ptr('dest', 0)
        return True
    return False


def m_fs_method(eng, n, st, func, want):
    """cheap exact models for the trivial accessors (so that they work on any FixedString object)"""
    callee = n.get('callee', '')
    mi = re.match(r'celma::common::FixedString<(\d+)>::(c?begin|c?end)$', callee)
    if mi:
        # begin()/end() of the string: an iterator bound to the object, at position 0 (the end marker for an empty
        # string) resp. at the end marker (the marker is the in-class initialiser of the iterator's index)
        S = int(mi.group(1))
        objn, args = eng.args_of(n)
        out = []
        for ov, s1 in (eng.ev(objn, st, func) if objn is not None else [(Obj('this', 'this'), st)]):
            if not isinstance(ov, Obj):
                return None
            ln, region = fs_fields(eng, s1, ov.name, S)
            variants = [(lin(END), s1)]
            if mi.group(2).endswith('begin'):
                variants = []
                for empty, s2 in eng.compare('==', ln, lin(0), s1, n, func):
                    variants.append((lin(END) if empty else lin(0), s2))
            for ix, s2 in variants:
                name = 'it@%s#%d' % (n['id'], next(eng.counter))
                s2.fields[(name, 'mpObject')] = Obj(ov.name, 'celma::common::FixedString<%d>' % S)
                s2.fields[(name, 'mIndex')] = ix
                s2.ftypes[(name, 'mIndex')] = 'unsigned long'
                out.append((Obj(name, btype(n.get('t') or 'celma::common::detail::FixedStringIterator')), s2))
        return out
    m = re.match(r'celma::common::FixedString<(\d+)>::(length|c_str|data|empty)$', callee)
    if not m:
        return None
    S = int(m.group(1))
    short = m.group(2)
    objn, args = eng.args_of(n)
    out = []
    for ov, s1 in (eng.ev(objn, st, func) if objn is not None else [(Obj('this', 'this'), st)]):
        if not isinstance(ov, Obj):
            return None
        ln, region = fs_fields(eng, s1, ov.name, S)
        if short == 'length':
            out.append((ln, s1))
        elif short == 'empty':
            if want == 'length':
                out.append((ln, s1))
            else:
                for tr, s2 in eng.compare('==', ln, lin(0), s1, n, func):
                    out.append((lin(1 if tr else 0), s2))
        else:
            s1.fields[(region, 'strlen')] = ln
            out.append((Ptr(region, 0), s1))
    return out


def m_vsnprintf(eng, n, st, func, want):
    """vsnprintf( buf, size, ...): writes at most size bytes incl. the terminator, returns the length
    the full text would have (>= 0) or a negative value"""
    objn, args = eng.args_of(n)
    out = []
    for (buf, size), s1 in _ev_all(eng, args[:2], st, func):
        if isinstance(size, Lin):
            eng.access(s1, buf, size, 'vsnprintf destination', n, func, write=True)
            if isinstance(buf, Ptr):
                eng.log_write(s1, ('opaque', buf, size, 'vsnprintf'))
            r = eng.fresh('vsnprintf', s1, 'int')
            if isinstance(buf, Ptr):
                # a terminator is written inside [buf, buf+size) when size > 0: at min( r, size-1)
                z = eng.fresh('nulpos', s1, None)
                s1.assume(ge(z, 0), le(z, size - 1))
                a = s1.copy()
                eng.add_nul(s1, buf.region, buf.off + z)
                s1.fields[('ghost', 'vsn')] = (r, z, size)
                # z == r when the text fitted, z == size-1 when it was cut
            out.append((r, s1))
        else:
            out.append((eng.fresh('vsnprintf', s1, 'int'), s1))
    return out


def m_ilist(eng, n, st, func, want):
    short = (n.get('callee') or '').split('::')[-1]
    objn, _ = eng.args_of(n)
    if objn is None:
        return None
    out = []
    for ov, s1 in eng.ev(objn, st, func):
        if not isinstance(ov, Obj) or (ov.name, 'size') not in s1.fields:
            return None
        sz = s1.fields[(ov.name, 'size')]
        if short == 'size':
            out.append((sz, s1))
        elif short == 'begin':
            out.append((Ptr(ov.name + '.data', 0), s1))
        elif short == 'end':
            out.append((Ptr(ov.name + '.data', sz), s1))
        else:
            return None
    return out


def make_engine(prog):
    cfg = {
        'invariants': invariants, 'bind_param': bind_param,
        'inline': ('celma::common::FixedString<', 'celma::common::detail::FixedString',
                   'celma::common::detail::operator-'),
        'inline_depth': 4, 'check_loop_bound_wrap': False,
        'models': {'celma::common::FixedString<*': m_fs_method, 'std::initializer_list<char>::*': m_ilist,
                   'vsnprintf': m_vsnprintf,
                   'std::vsnprintf': m_vsnprintf},
    }
    return Engine(prog, cfg)


SKIP = ('begin', 'end', 'cbegin', 'cend', 'rbegin', 'rend', 'crbegin', 'crend')


def members_to_analyse(prog, L):
    cls = 'celma::common::FixedString<%d>' % L
    fs = [f for f in prog.functions if f.cls == cls and not f.d.get('dtor')]
    res = []
    for f in fs:
        if any('normal_iterator' in p['t'] for p in f.params):
            continue          # std::string iterators: not modelled
        if f.short in SKIP:
            continue
        if f.d.get('defaulted'):
            continue          # member-wise copy of a well-formed object is well-formed
        if f.d.get('access', 0) != 0:
            continue          # private helpers are analysed inlined into their public callers
        res.append(f)
    return res


def sig(f):
    return '%s(%s)%s' % (f.short, ', '.join(
        p['t'].replace('std::basic_string<char, std::char_traits<char>, std::allocator<char>>', 'string').replace(
            'celma::common::', '').replace('unsigned long', 'size_t') for p in f.params), ' const' if f.d.get('const') else '')


def iterator_overload(chk, eng, f, L, iters):
    """members taking iterators of the string: analysed for every combination of 'at the end marker' / 'inside the
    text' of the iterators handed in; [first, last) and [first2, last2) are valid ranges (first not behind last)"""
    import itertools
    n = 0
    for combo in itertools.product(('in', 'end'), repeat=len(iters)):
        cases = dict(zip(iters, combo))
        skip = False
        for a, b in (('first', 'last'), ('first2', 'last2')):
            if cases.get(a) == 'end' and cases.get(b) == 'in':
                skip = True          # not a valid range
        if skip:
            continue
        eng.iter_cases = cases
        before = len(eng.obligations)

        def setup(e, st, func, cases=cases):
            for a, b in (('first', 'last'), ('first2', 'last2')):
                if cases.get(a) == 'in' and cases.get(b) == 'in':
                    st.assume(le(st.fields[(a, 'mIndex')], st.fields[(b, 'mIndex')]))
        try:
            finals = eng.analyse(f, setup)
        except RecursionError:
            chk.notes.append('recursion limit in %s' % f.key)
            continue
        finally:
            eng.iter_cases = {}
        n += 1
        tag = '%s, L=%d, %s' % (sig(f).replace('detail::FixedStringIterator<const char, const FixedString<%d>>' % L,
                                               'const_iterator').replace(
            'detail::FixedStringIterator<char, FixedString<%d>>' % L, 'iterator'), L,
            ', '.join('%s %s' % (k, 'at end' if v == 'end' else 'inside') for k, v in cases.items()))
        for o in eng.obligations[before:]:
            rule = 'O3' if o.kind == 'wrap' else ('O2' if o.kind in ('invariant', 'nul') else 'O1')
            chk.check(o.held, rule, f.name, '%s [%s]' % (o.what, tag), o.where, o.detail)
    return n


def iterators(chk, prog, eng):
    """O4: the iterator classes.  Invariant of an iterator bound to a string: mIndex == EndValue or
    mIndex < length() (validity after a later mutation of the string is outside the claim).  Every
    member is analysed from each of the two cases (and with no string attached); at each exit the
    invariant must hold again and every element access made on the way carries its O1 obligation
    against the string's buffer."""
    chk.rule('O4', 'iterators keep their position at the end marker or inside the text; accesses stay inside', 60)
    members = [f for f in prog.functions if ITER.match(f.cls or '') and not f.d.get('defaulted')
               and not f.d.get('dtor')]
    frees = [f for f in prog.functions if f.cls is None and f.name == 'celma::common::detail::operator-'
             and all(ITER.match(btype(q['t'].rstrip('&').strip())) for q in f.params)]
    chk.require(len(members) >= 72 and len(frees) >= 4, 'only %d iterator members / %d differences instantiated' % (
        len(members), len(frees)))

    def attach(e, st, obj, L, case):
        """binds the iterator object obj to a symbolic string (or to none) in the given invariant case"""
        st.ftypes[(obj, 'mIndex')] = 'unsigned long'
        if case == 'null':
            st.fields[(obj, 'mpObject')] = lin(0)
            st.fields[(obj, 'mIndex')] = lin(END)         # never attached: the in-class initialiser
            return
        fsn = 'fs@' + obj
        st.fields[(obj, 'mpObject')] = Obj(fsn, 'celma::common::FixedString<%d>' % L)
        ln, region = fs_fields(e, st, fsn, L)
        st.assume(ge(ln, 0), le(ln, L))
        e.add_nul(st, region, ln)
        if case == 'end':
            st.fields[(obj, 'mIndex')] = lin(END)
        else:
            ix = e.named('%s.mIndex' % obj, st, 'unsigned long')
            st.assume(lt(ix, ln))
            st.fields[(obj, 'mIndex')] = ix

    def check_exit(e, s, f, obj, tag):
        from ..lin import feasible, TooBig
        ix = s.fields.get((obj, 'mIndex'))
        po = s.fields.get((obj, 'mpObject'))
        if not isinstance(ix, Lin):
            chk.check(False, 'O4', f.name, 'iterator position is tracked at exit [%s]' % tag, f.loc(), repr(ix))
            return
        if not isinstance(po, Obj):
            return            # no string attached: the position is never used for an access
        ln = s.fields.get((po.name, 'mLength'))
        try:
            bad = feasible(s.cons + [le(ix, END - 1), ge(ix, ln)])
        except TooBig:
            bad = True
        chk.check(not bad, 'O4', f.name, 'position is the end marker or inside the text at exit [%s]' % tag, f.loc(),
                  '' if not bad else 'mIndex = %r with length %r is possible on the path [%s]' % (
                      ix, ln, '; '.join(s.trail[-6:])))

    n = 0
    for f in sorted(members + frees, key=lambda x: (x.cls or '', x.line, x.key)):
        m = ITER.match(f.cls or '') or ITER.match(btype(f.params[0]['t'].rstrip('&').strip()))
        L = int(m.group(4))
        short_cls = 'FixedString%sIterator<%schar>' % (m.group(1) or '', m.group(2) or '')
        others = [q['name'] for q in f.params if ITER.match(btype(q['t'].rstrip('&').strip()))]
        cases = ('null', 'end', 'in')
        combos = [(c,) for c in cases] if f.cls and not others else \
            [(a, b) for a in cases for b in cases]
        for combo in combos:
            tag = '%s::%s(%s), %s' % (short_cls, f.short, ', '.join(
                q['t'].split('<')[0].replace('celma::common::detail::', '').replace('celma::common::', '')
                for q in f.params), '/'.join(combo))
            before = len(eng.obligations)
            try:
                if f.d.get('ctor'):
                    if combo[0] == 'in':
                        continue
                    eng.root = f.name
                    st = St()
                    for q in f.params:
                        if q['t'].rstrip().endswith('*') and 'FixedString<' in q['t']:
                            if combo[0] == 'null':
                                st.vars[q['name']] = lin(0)
                            else:
                                fsn = 'fs@arg'
                                st.vars[q['name']] = Obj(fsn, 'celma::common::FixedString<%d>' % L)
                                ln, region = fs_fields(eng, st, fsn, L)
                                st.assume(ge(ln, 0), le(ln, L))
                                eng.add_nul(st, region, ln)
                        else:
                            eng.bind_param(st, f, q)
                    st.fields[('this', 'mpObject')] = lin(0)
                    st.fields[('this', 'mIndex')] = lin(END)
                    st.ftypes[('this', 'mIndex')] = 'unsigned long'
                    finals = eng.run_ctor(f, st, [st.vars.get(q['name'] or 'arg', UNKNOWN) for q in f.params])
                    objs = ['this']
                else:
                    objs = (['this'] if f.cls else []) + others

                    def setup(e, st, func, objs=objs, combo=combo, L=L):
                        for o, c in zip(objs, combo):
                            if o != 'this':
                                st.vars[o] = Obj(o, func.cls or 'iterator')
                            attach(e, st, o, L, c)
                    finals = eng.analyse(f, setup)
            except RecursionError:
                chk.notes.append('recursion limit in %s' % f.key)
                continue
            n += 1
            for o in eng.obligations[before:]:
                chk.check(o.held, 'O4', f.name, '%s [%s]' % (o.what, tag), o.where, o.detail)
            for s_ in finals:
                if s_.status in ('normal', 'return'):
                    if f.cls and not f.d.get('const'):
                        check_exit(eng, s_, f, 'this', tag)
                    if isinstance(s_.ret, Obj) and (s_.ret.name, 'mIndex') in s_.fields:
                        check_exit(eng, s_, f, s_.ret.name, tag + ' (returned iterator)')
    return n


def run(chk):
    drv = os.path.join(VERIF, 'drivers', 'fixed_string.cpp')
    extra = ['-DVERIF_THOROUGH'] if chk.tier == 'thorough' else []
    prog = load_program([drv], extra_args=extra)
    chk.units = [drv, '/repo/src/celma/common/fixed_string.hpp']
    grid = [10] if chk.tier == 'quick' else [1, 2, 10, 255, 256, 65535, 65536]
    chk.explanation = (
        'Linear-inequality abstract interpretation (Engine C, exact Fourier-Motzkin entailment, no solver) of every '
        'non-iterator member of FixedString<L> for the capacity grid %s, private helpers inlined, arguments completely '
        'unconstrained (positions and counts over the whole size_t range incl. npos, strings of any length, other '
        'fixed strings of smaller and larger capacity): every memcpy/memmove/memset/memcmp/vsnprintf/subscript/'
        'std::string( ptr, n) carries bounds obligations against mString[0..L], the source extents and local buffers; '
        'unsigned arithmetic that can wrap becomes an unconstrained value; the class invariant mLength <= L with a '
        'known NUL at mString[ mLength] is assumed at entry and proved at every exit.' % grid)
    chk.assumptions = ['O5 only: arguments of the documented domain (insert/erase index <= length, replace pos < length, '
                       'sub-range positions <= source length, count <= strlen for ( const char*, count)), sources do not '
                       'alias the destination, memcpy/memmove/memset/vsnprintf have their standard meaning',
                       'const char* arguments are NUL-terminated strings; copy( dest, count) may write count bytes',
                       'iterators handed in are valid for the current text (end marker or inside) and [first, last) is a '
                       'valid range; overloads taking std::string iterators are not analysed',
                       'vsnprintf writes at most the given size incl. the terminator',
                       'operator[]( idx) is documented as unchecked (undefined behaviour for an invalid index, like '
                       'std::string): decided under its documented precondition idx <= length(); at() is decided '
                       'for every idx',
                       '( const char* str, ..., count) overloads: the caller array holds at least count characters '
                       'and a terminator']
    chk.trusted_base = ['clang 14 front end', '/verif/tools/celma-facts.cc', '/verif/cv/bounds.py + lin.py']
    chk.rule('O1', 'every access stays inside the buffers involved', 80)
    chk.rule('O2', 'length <= capacity and NUL at the length at every exit', 100)
    chk.rule('O3', 'loop counters do not wrap', 0)
    eng = make_engine(prog)
    total = 0
    for L in grid:
        fs = members_to_analyse(prog, L)
        chk.require(len(fs) >= 100, 'only %d FixedString<%d> members found' % (len(fs), L))
        for f in sorted(fs, key=lambda x: (x.line, x.key)):
            iters = [p['name'] for p in f.params if ITER.match(btype(p['t'].rstrip('&').strip()))]
            if iters:
                total += iterator_overload(chk, eng, f, L, iters)
                continue
            before = len(eng.obligations)
            try:
                if f.d.get('ctor'):
                    eng.root = f.name
                    st = St()
                    for p in f.params:
                        eng.bind_param(st, f, p)
                    fs_fields(eng, st, 'this', L)
                    st.fields[('this', 'mLength')] = lin(0)       # in-class initialiser
                    eng.add_nul(st, 'this.mString', lin(0))       # mString[ 0] = 0 by its initialiser
                    finals = eng.run_ctor(f, st, [st.vars.get(p['name'] or 'arg', UNKNOWN) for p in f.params])
                    for s in finals:
                        if s.status in ('normal', 'return'):
                            eng.check_invariants(s, f, None, 'at exit')
                elif f.short == 'operator[]':
                    # documented as unchecked ('if the given index is invalid ... the behaviour is undefined',
                    # like std::string): analysed under its documented precondition idx <= length()
                    def pre(e, st, func, L=L):
                        ln, _ = fs_fields(e, st, 'this', L)
                        st.assume(le(st.vars['idx'], ln))
                    eng.analyse(f, pre)
                else:
                    finals = eng.analyse(f)
                    # a fixed string passed by non-const reference (swap) must be well-formed afterwards too
                    for q in f.params:
                        if capacity(btype(q['t'].rstrip('&').strip())) is not None and \
                                not q['t'].startswith('const ') and q['t'].rstrip().endswith('&') and \
                                not q['t'].rstrip().endswith('&&'):
                            for s_ in finals:
                                if s_.status not in ('normal', 'return'):
                                    continue
                                for desc, goals, post in invariants(eng, s_, f, q['name']):
                                    eng.oblige(s_, goals, 'invariant', '%s of argument %s at exit' % (
                                        desc, q['name']), None, f)
                                    post(eng, s_, ('check', 'of argument %s at exit' % q['name'], None, f))
            except RecursionError:
                chk.notes.append('recursion limit in %s' % f.key)
            total += 1
            tag = '%s, L=%d' % (sig(f), L)
            for o in eng.obligations[before:]:
                rule = 'O3' if o.kind == 'wrap' else ('O2' if o.kind in ('invariant', 'nul') else 'O1')
                chk.check(o.held, rule, f.name, '%s [%s]' % (o.what, tag), o.where, o.detail)
    # free comparison operators (instantiated by the driver for equal, smaller and larger right capacities)
    free = [f for f in prog.functions if f.cls is None and f.name in ('celma::common::operator==',
                                                                      'celma::common::operator!=')
            and all('FixedString<' in p['t'] for p in f.params)]
    chk.require(len(free) >= 6, 'only %d free comparison operators instantiated' % len(free))
    for f in sorted(free, key=lambda x: (x.line, x.key)):
        before = len(eng.obligations)
        eng.analyse(f)
        total += 1
        tag = sig(f)
        for o in eng.obligations[before:]:
            chk.check(o.held, 'O1', f.name, '%s [%s]' % (o.what, tag), o.where, o.detail)
    total += iterators(chk, prog, eng)
    # third clause - 'the length equals the C-string length of the buffer when no NUL was stored': every byte below
    # the new length was written by the operation (or is old text at its place) and is a byte of a source, never
    # a left-over - the provenance rule of C11-R4, run here for the same capacities
    from . import c11
    chk.rule('O5', 'no left-over byte below the length: new length and origin of every byte below it (strlen clause)',
             150)
    sub = type(chk)(chk.pid, chk.tier)
    sub._known = []
    eng11 = c11.make_engine(prog)
    for L in grid if chk.tier == 'quick' else [10, 255, 65536]:
        _ns, _nc, und, _un = c11.r4_mutators(sub, prog, eng11, L)
        if und:
            raise AnalysisBroken('%d position case(s) of the mutators can not be resolved any more (strlen clause, L=%d)'
                                 % (und, L))
        c11.r4_swap(sub, prog, eng11, L)
        c11.r4_sprintf(sub, prog, eng11, L)
    for o in sub.obligations:
        chk.check(o['status'] == 'held', 'O5', o['function'], o['what'], o['where'], o.get('detail', ''))
    chk.samples.append({'members_analysed': total, 'capacities': grid})
    if eng.unsupported:
        chk.notes.append('constructs evaluated as opaque: %s' % sorted(set(eng.unsupported))[:12])
    if eng.notes:
        chk.notes.extend(sorted(set(eng.notes))[:6])
    chk.level = 'proof' if not chk.failures else 'other'
