"""C16 — Every delivered log message is rendered exactly as its format definition says.

The rendered text itself is behavioural and NOT decided.  Decided:
 R1 Format::format: switch exhaustive over FieldTypes, every case reads the LogMsg getter the
    field kind names and funnels into append() with the field definition; fields in order
 R2 Creator: every field passes addField(), which consumes the pending width / alignment /
    format string exactly once; the automatic separator is inserted only between fields
 R3 attribute precedence: message attributes first, global ones only if empty; newest first;
    scoped attributes add/remove the same name
 R4 the result of strftime() is checked before the buffer is used"""
from .. import rules
from ..rules import (callee_is, object_of, field_name, call_args, mentions_field, mentions_call,
                     mentions_var, loops_in, loop_header, loop_iteration_must_pass, Wrapper)
from ..facts import load_program, units_matching, children, strip_all_casts, strip_casts, walk, CALL_KINDS, \
    AnalysisBroken

GETTERS = {
    'constant': [],
    'date': ['getTimestamp'], 'time': ['getTimestamp'], 'dateTime': ['getTimestamp'],
    'time_ms': ['getTimeMilliSecs'], 'time_us': ['getTimeMicroSecs'],
    'pid': ['getProcessId'], 'threadId': ['getThreadId'], 'lineNbr': ['getLineNbr'],
    'functionName': ['getFunctionName'], 'fileName': ['getFileName'],
    'msgLevel': ['getLevel', 'logLevel2text'], 'msgClass': ['getClass', 'logClass2text'],
    'errorNbr': ['getErrorNbr'], 'text': ['getText'], 'attribute': ['getAttributeValue'],
}
DEFAULT_FMT = {'date': '%F', 'time': '%T', 'dateTime': '%F %T'}


def switch_cases(sw):
    """list of ([label], [statements executed when entering at that label, up to the next break])"""
    seq = []
    body = children(sw)[-1]

    def flat(s):
        if s.get('k') == 'CaseStmt':
            seq.append(('label', (s.get('enumerator') or '').split('::')[-1]))
            for c in children(s):
                flat(c)
        elif s.get('k') == 'DefaultStmt':
            seq.append(('label', '<default>'))
            for c in children(s):
                flat(c)
        elif s.get('k') == 'BreakStmt':
            seq.append(('break', s))
        else:
            seq.append(('stmt', s))
    for s in children(body):
        flat(s)
    groups = []
    for i, (kind, v) in enumerate(seq):
        if kind != 'label':
            continue
        stmts = []
        for k2, v2 in seq[i + 1:]:
            if k2 == 'break':
                break
            if k2 == 'stmt':
                stmts.append(v2)
        groups.append(([v], stmts))
    return groups


def r1(chk, prog):
    f = prog.one('celma::log::formatting::Format', 'format')
    en = prog.enums.get('celma::log::formatting::Definition::FieldTypes')
    chk.require(en is not None, 'enum Definition::FieldTypes not found')
    names = [e['name'] for e in en['enumerators']]
    sws = [n for n in f.walk() if n.get('k') == 'SwitchStmt']
    chk.require(len(sws) == 1, 'Format::format: expected one switch')
    groups = switch_cases(sws[0])
    seen = {}
    for labels, stmts in groups:
        for l in labels:
            seen[l] = stmts
    missing = [n for n in names if n not in seen]
    chk.check(not missing, 'R1', f.name, 'every field kind is rendered (switch exhaustive)', f.loc(sws[0]),
              'no case for %s' % missing)
    unknown = [n for n in names if n not in GETTERS]
    chk.check(not unknown, 'R1', f.name, 'every field kind has a rendering rule in the checker table', f.loc(),
              'new field kinds %s: extend GETTERS after reading the documentation' % unknown)
    loops = [l for l in loops_in(f) if any(mentions_field(h, 'mFields') for h in children(l)[:-1])]
    chk.require(loops, 'Format::format: no loop over mFields')
    loopvar = None
    lv = children(loops[0])[1] if loops[0].get('k') == 'CXXForRangeStmt' else None
    if lv and lv.get('k') == 'DeclStmt':
        loopvar = lv['decls'][0]['name']
    for name in names:
        stmts = seen.get(name)
        if stmts is None or name not in GETTERS:
            continue
        calls = [c for s in stmts for c in walk(s) if c.get('k') in CALL_KINDS]
        got = {c.get('callee', '').split('::')[-1] for c in calls}
        need = GETTERS[name]
        sink = [c for c in calls if callee_is(c, 'Format::append', 'Format::formatDateTime')]
        ok = all(g in got for g in need) and len(sink) == 1
        detail = 'calls %s' % sorted(g for g in got if g.startswith('get') or 'text' in g)
        # other message getters must not be used for this field
        others = {g for g in got if g.startswith('get') and g not in need and g not in ('getAttribute',)}
        if others:
            ok = False
            detail = 'reads %s instead of / in addition to %s' % (sorted(others), need)
        if ok:
            a = call_args(sink[0])
            ok = len(a) >= 2 and mentions_var(a[1], loopvar)
            if not ok:
                detail = 'append()/formatDateTime() is not given the current field definition'
        if ok and name in DEFAULT_FMT:
            lit = [x.get('val') for x in walk(call_args(sink[0])[2]) if x.get('k') == 'StringLiteral']
            if not lit:
                # a named constant of the function: its initialiser is the default format
                for x in walk(call_args(sink[0])[2]):
                    if x.get('k') == 'DeclRefExpr' and x['ref'].get('sto') != 'param' and x['ref'].get('did'):
                        for ds in f.walk():
                            for d in (ds.get('decls', []) if ds.get('k') == 'DeclStmt' else []):
                                if d.get('did') == x['ref'].get('did') and isinstance(d.get('init'), dict) and \
                                        'const' in (d.get('t') or ''):
                                    lit += [y.get('val') for y in walk(d['init']) if y.get('k') == 'StringLiteral']
            ok = lit == [DEFAULT_FMT[name]]
            detail = 'default format %s, expected %r' % (lit, DEFAULT_FMT[name])
        if ok and name == 'constant':
            ok = any(x.get('k') == 'MemberExpr' and x['ref'].get('name') == 'mConstant' for c in sink for x in walk(c))
        chk.check(ok, 'R1', f.name, 'field kind %s is taken from %s' % (name, '/'.join(need) or 'the constant text'),
                  f.loc(stmts[0]) if stmts else f.loc(), detail)
    # in order, no field skipped: no return, every iteration reaches a sink
    w = Wrapper(prog, lambda c: callee_is(c, 'Format::append'))
    off = loop_iteration_must_pass(f.cfg, loops[0], w.node_is)
    rets = [n for n in f.walk() if n.get('k') == 'ReturnStmt']
    chk.check(not off and not rets, 'R1', f.name, 'every field of the definition is rendered, in definition order',
              f.loc(), '; '.join(off) or 'return inside format()')
    # formatDateTime: custom format string wins, default otherwise
    g = prog.one('celma::log::formatting::Format', 'formatDateTime')
    conds = [n for n in g.walk() if n.get('k') == 'ConditionalOperator']
    ok = False
    for c in conds:
        cc, a, b = children(c)
        if mentions_field(cc, 'mConstant') and mentions_call(cc, 'empty'):
            c0 = strip_all_casts(cc)
            neg = False
            while c0.get('k') == 'UnaryOperator' and c0.get('op') == '!':
                neg = not neg
                c0 = strip_all_casts(children(c0)[0])
            if neg:
                a, b = b, a
            ok = c0.get('k') in CALL_KINDS and mentions_var(a, g.params[2]['name']) and \
                mentions_field(b, 'mConstant')
    st = [c for c in g.calls() if callee_is(c, 'strftime')]
    ok = ok and len(st) == 1
    chk.check(ok, 'R1', g.name, 'date/time fields use the field\'s format string, else the default', g.loc())
    ap = [c for c in g.calls() if callee_is(c, 'Format::append')]
    chk.check(len(ap) == 1 and mentions_var(call_args(ap[0])[1], g.params[1]['name']) and
              not g.cfg.must_pass_through(lambda n: n in ap), 'R1', g.name,
              'the rendered time is appended with the field definition', g.loc())
    # append: width only when set, text exactly once
    h = prog.one('celma::log::formatting::Format', 'append')
    cfg = h.cfg
    streams = [c for c in h.calls() if c.get('k') == 'CXXOperatorCallExpr' and c.get('op') == '<<']
    text = [c for c in streams if mentions_var(call_args(c)[1], h.params[2]['name'])]
    sw = [c for c in streams if mentions_call(call_args(c)[1], 'setw')]
    ok = len(text) == 1 and not cfg.must_pass_through(lambda n: n in text) and len(sw) == 1
    if ok:
        ok = any(cond is not None and mentions_field(cond, 'mFixedWidth') and
                 cfg.guarded_by_edge(cfg.position(sw[0]), bid, 0) for bid, cond in cfg.cond_blocks())
        ok = ok and cfg.node_dominates(sw[0], text[0]) or ok and cfg.reachable_from(cfg.position(sw[0]), cfg.position(text[0]))
        ok = ok and mentions_field(call_args(sw[0])[1], 'mFixedWidth')
    chk.check(ok, 'R1', h.name, 'text written exactly once, padded to the fixed width when one is set', h.loc())
    left = [c for c in streams if any(x.get('k') == 'DeclRefExpr' and x['ref'].get('q') == 'std::left'
                                      for x in walk(call_args(c)[1]))]
    ok = len(left) == 1 and any(cond is not None and mentions_field(cond, 'mAlignLeft') and
                                cfg.guarded_by_edge(cfg.position(left[0]), bid, 0)
                                for bid, cond in cfg.cond_blocks()) and \
        cfg.reachable_from(cfg.position(left[0]), cfg.position(text[0])) if text else False
    chk.check(ok, 'R1', h.name, 'left alignment applied iff requested, before the text', h.loc())
    # the sticky std::left is undone on every path on which it was set
    right = [c for c in streams if any(x.get('k') == 'DeclRefExpr' and x['ref'].get('q') == 'std::right'
                                       for x in walk(call_args(c)[1]))]
    if left:
        lp = cfg.position(left[0])
        rids = {c['id'] for c in right}
        # the alignment flag of the field definition is constant inside append(): every test of it takes
        # the same branch as the one that guarded std::left
        same = set()
        for bid, cond in cfg.cond_blocks():
            c0 = strip_all_casts(cond) if cond else None
            if c0 is not None and field_name(c0) == 'mAlignLeft':
                e = cfg.edge_guard(bid, 1)
                if e:
                    same.add(e)
        bad = cfg.can_reach_exit((lp[0], lp[1] + 1), lambda p, e: isinstance(e, int) and e in rids,
                                 blocked_edges=same)
        chk.check(not bad and bool(right), 'R1', h.name,
                  'the alignment is switched back after the field (it is a sticky stream state)', h.loc(),
                  'a path leaves append() with std::left still set on the destination stream: later right-aligned '
                  'fields are padded on the wrong side')


def r2(chk, prog):
    add = prog.one('celma::log::formatting::Creator', 'addField')
    cfg = add.cfg
    pushes = [c for c in add.calls() if 'push_back' in c.get('callee', '') and
              any(x.get('k') == 'MemberExpr' and x['ref'].get('name') == 'mFields' for x in walk(c))]
    chk.require(len(pushes) == 2, 'addField: expected separator push and field push, found %d' % len(pushes))
    field_push = [p for p in pushes if mentions_var(call_args(p)[0], add.params[0]['name'])]
    sep_push = [p for p in pushes if p not in field_push]
    chk.require(len(field_push) == 1 and len(sep_push) == 1, 'addField: cannot tell the two push_back calls apart')
    chk.check(not cfg.must_pass_through(lambda n: n in field_push), 'R2', add.name,
              'the field is appended to the definition on every path', add.loc())
    # pending options are consumed after the field was stored
    fp = cfg.position(field_push[0])
    resets = {}
    for n in add.walk():
        if n.get('k') == 'BinaryOperator' and n.get('op') == '=':
            fn = field_name(children(n)[0])
            v = strip_all_casts(children(n)[1])
            if fn in ('mFixedWidth', 'mAlignLeft') and v.get('val', v.get('cv')) in (0, False):
                resets[fn] = n
    for c in add.calls():
        if c.get('callee', '').endswith('::clear') and field_name(object_of(c)) == 'mFormatString':
            resets['mFormatString'] = c
    for fld in ('mFixedWidth', 'mAlignLeft', 'mFormatString'):
        n = resets.get(fld)
        ok = n is not None and not cfg.must_pass_through(lambda x, n=n: x is n)
        chk.check(ok, 'R2', add.name, 'pending %s applies to one field only (reset in addField)' % fld, add.loc(),
                  'not reset on every path')
    # separator only between fields
    sp = cfg.position(sep_push[0])
    g_sep = [bid for bid, c in cfg.cond_blocks() if c is not None and mentions_field(c, 'mAutoSep')]
    g_first = [bid for bid, c in cfg.cond_blocks() if c is not None and mentions_field(c, 'mFields')]

    def guarded(bids):
        for b in bids:
            c0 = strip_all_casts(cfg.effective_cond(b))
            neg = c0.get('k') == 'UnaryOperator' and c0.get('op') == '!'
            # separator must be pushed only when empty() is false
            if cfg.guarded_by_edge(sp, b, 0 if neg else 1):
                return True
        return False
    chk.check(guarded(g_sep) and guarded(g_first) and
              cfg.reachable_from(sp, fp), 'R2', add.name,
              'automatic separator only when one is set and only between fields', add.loc(sep_push[0]))
    sepvals = {}
    for n in add.walk():
        if n.get('k') == 'BinaryOperator' and n.get('op') == '=':
            l = strip_all_casts(children(n)[0])
            if l.get('k') == 'MemberExpr' and l['ref'].get('dk') == 'Field' and children(l) and \
                    strip_all_casts(children(l)[0]).get('k') == 'DeclRefExpr':
                v = strip_all_casts(children(n)[1])
                sepvals[l['ref']['name']] = v.get('val', v.get('cv', v.get('k')))
    chk.check(sepvals.get('mFixedWidth') in (0,) and sepvals.get('mAlignLeft') in (0, False), 'R2', add.name,
              'the separator itself is not padded or aligned', add.loc(), 'separator field %s' % sepvals)
    # who may write mFields
    for f in prog.functions:
        if (f.classq or '') != 'celma::log::formatting::Creator':
            continue
        for c in f.calls():
            if not c.get('cconst') and any(x.get('k') == 'MemberExpr' and x['ref'].get('name') == 'mFields'
                                           for x in walk(children(c)[0] if children(c) else {})):
                chk.check(f.short == 'addField', 'R2', f.name, 'only addField() extends the field list', f.loc(c))
    # every field-building function copies the pending options and funnels into addField
    builders = [f for f in prog.functions if f.classq == 'celma::log::formatting::Creator' and
                any(n.get('k') == 'DeclStmt' and any('Definition::Field' in d.get('t', '') for d in n['decls'])
                    for n in f.walk()) and f.short != 'addField']
    chk.require(len(builders) >= 3, 'only %d field-building functions in Creator' % len(builders))
    for f in builders:
        w = [c for c in f.calls() if callee_is(c, 'Creator::addField')]
        ok = len(w) == 1 and not f.cfg.must_pass_through(lambda n: n in w)
        copies = {}
        for n in f.walk():
            if n.get('k') in ('BinaryOperator', 'CXXOperatorCallExpr') and n.get('op') == '=':
                kids = call_args(n) if n['k'] == 'CXXOperatorCallExpr' else children(n)
                l, r = strip_all_casts(kids[0]), strip_all_casts(kids[1])
                if l.get('k') == 'MemberExpr' and field_name(r):
                    copies[l['ref']['name']] = field_name(r)
        ok = ok and copies.get('mFixedWidth') == 'mFixedWidth' and copies.get('mAlignLeft') == 'mAlignLeft'
        if f.short == 'field':
            ok = ok and copies.get('mConstant') == 'mFormatString'
        chk.check(ok, 'R2', f.name, 'pending width/alignment%s are copied into the new field, which is added through '
                  'addField()' % ('/format string' if f.short == 'field' else ''), f.loc(),
                  'copies: %s' % copies)


def r3(chk, prog):
    f = prog.one('celma::log::formatting::Format', 'format')
    cfg = f.cfg
    own = [c for c in f.calls() if callee_is(c, 'LogMsg::getAttributeValue')]
    glob = [c for c in f.calls() if callee_is(c, 'Logging::getAttribute')]
    chk.require(own and glob, 'attribute lookups not found in Format::format')
    ok = all(any(cfg.node_dominates(o, g) for o in own) for g in glob)
    guarded = False
    for bid, cond in cfg.cond_blocks():
        if cond is not None and mentions_call(cond, 'empty') and \
                all(cfg.guarded_by_edge(cfg.position(g), bid, 0) for g in glob):
            guarded = True
    chk.check(ok and guarded, 'R3', f.name, 'message attributes take precedence; global attribute only if the '
              'message has none', f.loc(glob[0]))
    same_name = all(mentions_field(call_args(c)[0], 'mConstant') for c in own + glob)
    chk.check(same_name, 'R3', f.name, 'both lookups use the field\'s attribute name', f.loc())
    # the attributes of the message itself: the lookup follows the chain of enclosing attribute objects
    # (LogAttributes::mpOuter) - the call must resolve to the implementation that knows the chain (a statically
    # bound call of the plain container's lookup skips the attributes defined in a parent object)
    mv = prog.one('celma::log::detail::LogMsg', 'getAttributeValue')
    looks = [c for c in mv.calls() if (c.get('callee') or '').endswith('::getAttribute')]
    chk.require(looks, 'LogMsg::getAttributeValue: attribute lookup not found')
    for c in looks:
        targets = [prog.by_key[k][0] for k in prog.call_targets(c) if k in prog.by_key]
        follows = any(any(x.get('k') == 'MemberExpr' and x.get('ref', {}).get('name') == 'mpOuter' for x in t.walk())
                      for t in targets if t.body is not None)
        chk.check(follows, 'R3', mv.name, 'the lookup of a message attribute follows the chain of enclosing attribute '
                  'objects (own attributes first, then the parent\'s)', mv.loc(c),
                  'the call binds to %s, which does not consult the parent object' % c.get('callee'))
    la = prog.one('celma::log::LogAttributes', 'getAttribute')
    own_c = [c for c in la.calls() if (c.get('callee') or '').endswith('LogAttributesContainer::getAttribute')]
    outer_c = [c for c in la.calls() if (c.get('callee') or '').endswith('LogAttributes::getAttribute')]
    lcfg = la.cfg
    guarded_outer = bool(own_c) and bool(outer_c) and all(
        any(lcfg.node_dominates(o, q) for o in own_c) and any(
            cond is not None and mentions_call(cond, 'empty') and lcfg.guarded_by_edge(lcfg.position(q), bid, 0)
            for bid, cond in lcfg.cond_blocks()) for q in outer_c)
    chk.check(guarded_outer, 'R3', la.name, 'an attribute object asks its parent only when it has no value of its own',
              la.loc())
    g = prog.one('celma::log::detail::LogAttributesContainer', 'getAttribute')
    rev = any('rbegin' in c.get('callee', '') for c in g.calls()) and any('rend' in c.get('callee', '')
                                                                          for c in g.calls())
    loops = loops_in(g)
    first = False
    if loops:
        rets = [n for n in g.walk() if n.get('k') == 'ReturnStmt' and loops[0] in list(g.ancestors(n))]
        first = len(rets) == 1
    chk.check(rev and first, 'R3', g.name, 'the most recently defined value of an attribute wins', g.loc())
    ctor = [x for x in prog.functions if x.classq == 'celma::log::detail::ScopedAttribute' and x.d.get('ctor')]
    dtor = [x for x in prog.functions if x.classq == 'celma::log::detail::ScopedAttribute' and x.d.get('dtor')]
    chk.require(ctor and dtor, 'ScopedAttribute ctor/dtor not found')
    c, d = ctor[0], dtor[0]
    adds = [x for x in c.calls() if callee_is(x, 'Logging::addAttribute')]
    rems = [x for x in d.calls() if callee_is(x, 'Logging::removeAttribute')]
    name_init = any(i.get('name') == 'mAttributeName' and isinstance(i.get('init'), dict) and
                    mentions_var(i['init'], c.params[0]['name']) for i in c.inits)
    ok = len(adds) == 1 and len(rems) == 1 and name_init and \
        mentions_var(call_args(adds[0])[0], c.params[0]['name']) and \
        mentions_field(call_args(rems[0])[0], 'mAttributeName') and len(call_args(rems[0])) == 1
    chk.check(ok, 'R3', c.name, 'a scoped attribute adds and later removes the same name', c.loc())
    r = [x for x in prog.functions if x.classq == 'celma::log::detail::LogAttributesContainer'
         and x.short == 'removeAttribute' and len(x.params) == 1]
    chk.require(r, 'removeAttribute( name) not found')
    r = r[0]
    loops = loops_in(r)
    desc = False
    if loops:
        inc = loops[0].get('c', [None] * 4)[3]
        desc = inc is not None and strip_all_casts(inc).get('op') == '--'
    er = [x for x in r.calls() if 'erase' in x.get('callee', '')]
    one = bool(er) and all(not r.cfg.reachable_from(r.cfg.position(e), r.cfg.position(e)) for e in er)
    chk.check(desc and one, 'R3', r.name, 'removing a named attribute removes its most recent definition only',
              r.loc())


def r3_global_forwarding(chk, prog):
    """the global attribute interface of Logging (used by ScopedAttribute to end a scope) hands every parameter on
    to the same-named operation of the attribute container: removeAttribute( name) removes THAT name (not 'the
    attribute added last'), addAttribute( name, value) adds exactly that pair"""
    n = 0
    for f in prog.functions:
        if f.classq != 'celma::log::Logging' or f.short not in ('addAttribute', 'removeAttribute', 'getAttribute') \
                or f.body is None:
            continue
        calls = [c for c in f.calls() if field_name(object_of(c)) == 'mAttributes']
        n += 1
        ok = len(calls) == 1 and (calls[0].get('callee') or '').split('::')[-1] == f.short
        detail = 'no single call of mAttributes.%s()' % f.short
        if ok:
            args = [a for a in call_args(calls[0]) if not a.get('defarg')]
            ok = len(args) == len(f.params) and all(mentions_var(a, p_['name']) for a, p_ in zip(args, f.params)) and \
                not f.cfg.must_pass_through(lambda nn: nn in calls)
            detail = 'the container operation is called with %d of %d parameters' % (len(args), len(f.params))
        chk.check(ok, 'R3', f.name, 'Logging::%s() forwards all its parameters to the attribute container' % f.short,
                  f.loc(), detail)
    chk.require(n >= 2, 'forwarding attribute operations of Logging: %d' % n)


def r3_add_balance(chk, prog):
    """add and remove are balanced: every call of addAttribute() adds exactly one entry (the scoped removal takes
    exactly one away), and it does nothing else to the container"""
    a = [x for x in prog.functions if x.classq == 'celma::log::detail::LogAttributesContainer'
         and x.short == 'addAttribute']
    chk.require(a, 'LogAttributesContainer::addAttribute not found')
    for f in a:
        cfg = f.cfg
        touching = [c for c in f.calls() if any(x.get('k') == 'MemberExpr' and x.get('ref', {}).get('name') ==
                                                'mAttributes' for x in walk(c))]
        pushes = [c for c in touching if (c.get('callee') or '').split('::')[-1] in ('push_back', 'emplace_back')
                  and field_name(object_of(c)) == 'mAttributes']
        # every path adds ...
        missing = cfg.must_pass_through(lambda n: n in pushes) if pushes else [0]
        # ... exactly once ...
        twice = any(cfg.reachable_from(cfg.position(p), cfg.position(q)) for p in pushes for q in pushes)
        # ... and nothing else modifies the container (a non-const member of it, or a write through an element)
        others = [c for c in touching if c not in pushes and not c.get('cconst') and
                  (field_name(object_of(c)) == 'mAttributes') and
                  (c.get('callee') or '').split('::')[-1] not in ('size', 'empty')]
        writes = [n for n in f.walk() if n.get('k') in ('BinaryOperator', 'CompoundAssignOperator') and
                  (n.get('op') or '').endswith('=') and n.get('op') not in ('==', '!=', '<=', '>=') and
                  any(x.get('k') == 'MemberExpr' and x.get('ref', {}).get('name') == 'mAttributes'
                      for x in walk(children(n)[0]))]
        writes += [c for c in f.calls() if (c.get('callee') or '').endswith('operator=') and call_args(c) and
                   any(x.get('k') == 'MemberExpr' and x.get('ref', {}).get('name') == 'mAttributes'
                       for x in walk(object_of(c) or children(c)[1] if len(children(c)) > 1 else {}))]
        chk.check(bool(pushes) and not missing and not twice and not others and not writes, 'R3', f.name,
                  'every addAttribute() appends exactly one entry and changes nothing else (so that add and the scoped '
                  'remove stay balanced)', f.loc(),
                  'paths without an append: %s; two appends on a path: %s; other modifications: %d' % (
                      bool(missing), twice, len(others) + len(writes)))


def r4(chk, prog):
    n = 0
    for f in prog.functions:
        if '/log/' not in f.file:
            continue
        for c in f.calls():
            if not callee_is(c, 'strftime'):
                continue
            n += 1
            p = f.parent(c)
            used = p is not None and p.get('k') not in ('CompoundStmt',)
            # the buffer must not be read on a path where the result was not tested
            chk.check(used, 'R4', f.name, 'result of strftime() is checked before the buffer is used', f.loc(c),
                      'strftime() returns 0 and leaves the buffer undefined when the rendered text does not fit '
                      '(custom format strings of any length are allowed); the unterminated buffer is then appended')
    return n


def _plain_name(q):
    """last component of a qualified name, template arguments removed"""
    out, depth = [], 0
    for ch in q:
        if ch == '<':
            depth += 1
        elif ch == '>':
            depth -= 1
        elif depth == 0:
            out.append(ch)
    return ''.join(out).split('::')[-1]


TRUNCATING = {'to_time_t', 'duration_cast', 'time_point_cast', 'floor', 'time_since_epoch', 'count'}
ROUNDING = {'round', 'ceil'}


def r5_message_getters(chk, prog):
    """R5: what the renderer reads through the LogMsg getters IS the stored value.
     * the plain getters return one data member, unchanged; no two getters hand out the same member; where a setter
       of the same property exists (setLevel/setClass/setText/...), it writes the member the getter returns
     * the three time getters are functions of the one stored time point and convert it by TRUNCATION only
       (to_time_t / duration_cast / time_point_cast / floor): the seconds shown by date/time fields and the
       milli-/microseconds shown next to them belong to the same instant only if none of them rounds up"""
    cls = 'celma::log::detail::LogMsg'
    plain = ['getProcessId', 'getThreadId', 'getLineNbr', 'getFunctionName', 'getFileName', 'getLevel', 'getClass',
             'getErrorNbr', 'getText']
    setters = {'getLevel': 'setLevel', 'getClass': 'setClass', 'getErrorNbr': 'setErrorNumber', 'getText': 'setText'}
    field_of = {}

    def this_fields(f):
        return [x['ref'].get('name') for x in f.walk() if x.get('k') == 'MemberExpr' and
                x['ref'].get('dk') == 'Field' and children(x) and strip_all_casts(children(x)[0]).get('k') == 'CXXThisExpr']
    for g in plain:
        f = prog.one(cls, g)
        rets = [x for x in f.walk() if x.get('k') == 'ReturnStmt']
        v = strip_all_casts(children(rets[0])[0]) if len(rets) == 1 and children(rets[0]) else {}
        while v.get('k') in ('CXXConstructExpr', 'MaterializeTemporaryExpr', 'ParenExpr') and len(children(v)) == 1:
            v = strip_all_casts(children(v)[0])
        fl = this_fields(f)
        ok = v.get('k') == 'MemberExpr' and len(fl) == 1 and v['ref'].get('name') == fl[0] and \
            not any(x.get('k') in CALL_KINDS and x is not v for x in f.walk() if x.get('k') != 'CXXConstructExpr')
        chk.check(ok, 'R5', f.name, '%s() returns one stored member, unchanged' % g, f.loc(),
                  'members read: %s' % fl)
        if ok:
            field_of[g] = fl[0]
    dup = {m for m in field_of.values() if list(field_of.values()).count(m) > 1}
    chk.check(not dup, 'R5', cls, 'every getter has its own member', '', 'shared: %s' % sorted(dup))
    for g, sname in setters.items():
        sf = prog.one(cls, sname)
        written = set()
        for x in sf.walk():
            if (x.get('k') == 'BinaryOperator' and x.get('op') == '=') or \
                    (x.get('k') == 'CXXOperatorCallExpr' and x.get('op') == '='):
                lhs = strip_all_casts(children(x)[0] if x.get('k') == 'BinaryOperator' else call_args(x)[0])
                if lhs.get('k') == 'MemberExpr':
                    written.add(lhs['ref'].get('name'))
        if g in field_of:
            chk.check(written == {field_of[g]}, 'R5', sf.name, '%s() writes the member that %s() returns' % (sname, g),
                      sf.loc(), 'writes %s, getter returns %s' % (sorted(written), field_of[g]))
    # the time getters
    stamp = None
    for g in ('getTimestamp', 'getTimeMilliSecs', 'getTimeMicroSecs'):
        f = prog.one(cls, g)
        fl = set(this_fields(f))
        chk.check(len(fl) == 1 and (stamp is None or fl == {stamp}), 'R5', f.name,
                  '%s() is computed from the stored time point only' % g, f.loc(), 'members read: %s' % sorted(fl))
        if len(fl) == 1 and stamp is None:
            stamp = next(iter(fl))
        names = set()
        for c in f.calls():
            nm = _plain_name(c.get('callee') or '')
            if c.get('k') == 'CXXConstructExpr' or nm in ('duration', 'time_point'):
                continue            # copies of chrono values
            if c.get('k') == 'CXXOperatorCallExpr':
                nm = 'operator' + (c.get('op') or '')
            names.add(nm)
        arith = {x.get('op') for x in f.walk() if x.get('k') == 'BinaryOperator'} | \
                {n[8:] for n in names if n.startswith('operator')}
        bad = sorted(names & ROUNDING) + sorted(o for o in arith if o in ('+', '-', '+=', '-='))
        unknown = sorted(n for n in names if n not in TRUNCATING and n not in ROUNDING and not n.startswith('operator'))
        if unknown and not bad:
            raise AnalysisBroken('%s(): conversion %s of the time point is not in the table of truncating / rounding '
                                 'conversions' % (g, unknown))
        chk.check(not bad, 'R5', f.name, '%s() converts the time point by truncation (seconds and sub-second fields '
                  'describe the same instant)' % g, f.loc(), 'uses %s' % bad)


def r6_no_memo(chk, prog):
    """R6: every field is computed from the message that is being rendered: no function of the rendering units keeps
    a function-local static whose initialiser uses a parameter, a local or the object - such a memo is fixed by the
    first message (first process id, first text, ...) and served to every later message (rule shared with C09-R4)"""
    n_static = 0
    seen = set()
    for f in prog.functions:
        if f.body is None or '/log/' not in f.file:
            continue
        for n_ in f.walk():
            if n_.get('k') != 'DeclStmt':
                continue
            for d in n_.get('decls', []):
                if not d.get('static') or (f.file, n_.get('l'), d['name']) in seen:
                    continue
                seen.add((f.file, n_.get('l'), d['name']))
                n_static += 1
                deps = []
                if isinstance(d.get('init'), dict):
                    for x in walk(d['init']):
                        if x.get('k') == 'CXXThisExpr':
                            deps.append('this')
                        elif x.get('k') == 'DeclRefExpr' and x.get('ref', {}).get('sto') in ('param', 'local'):
                            deps.append(x['ref']['name'])
                chk.check(not deps, 'R6', f.name, 'function-local static %s does not memoise data of the first message'
                          % d['name'], f.loc(n_), 'its initialiser uses %s' % ', '.join(sorted(set(deps))))
    chk.ok('R6', '', 'function-local statics in the rendering units: %d' % n_static)


INT_BITS = {'bool': 1, 'char': 8, 'signed char': 8, 'unsigned char': 8, 'short': 16, 'unsigned short': 16, 'int': 32,
            'unsigned int': 32, 'long': 64, 'unsigned long': 64, 'long long': 64, 'unsigned long long': 64}


def r7_lossless_options(chk, prog):
    """R7: width, alignment and format string travel from the builder to the renderer without loss: every
    assignment in the builder whose target is a member of Definition::Field, and every assignment of a parameter to
    a pending-option member of the builder, is between equal types or widens - an implicit integral conversion to
    a narrower (or differently signed, equally wide) type would render a width of 300 as 44"""
    def bt(t):
        return (t or '').replace('const ', '').replace('&', '').strip()

    def narrowing(node):
        """the implicit integral conversion on top of an assigned value that loses values, or None"""
        n = node
        while n.get('k') == 'ImplicitCastExpr':
            if n.get('ck') == 'IntegralCast':
                src = bt(children(n)[0].get('t'))
                dst = bt(n.get('t'))
                if src in INT_BITS and dst in INT_BITS:
                    sb, db = INT_BITS[src], INT_BITS[dst]
                    s_uns, d_uns = src.startswith('unsigned') or src == 'bool', dst.startswith('unsigned') or dst == 'bool'
                    if db < sb or (db == sb and s_uns != d_uns):
                        return src, dst
            n = children(n)[0]
        return None
    n_asg = 0
    for f in prog.functions:
        if (f.classq or '') != 'celma::log::formatting::Creator' or f.body is None:
            continue
        for x in f.walk():
            if x.get('k') != 'BinaryOperator' or x.get('op') != '=':
                continue
            lhs, rhs = children(x)
            l0 = strip_all_casts(lhs)
            if l0.get('k') != 'MemberExpr' or l0['ref'].get('dk') != 'Field':
                continue
            q = l0['ref'].get('q') or ''
            r0 = strip_all_casts(rhs)
            from_state = r0.get('k') in ('MemberExpr', 'DeclRefExpr') and \
                (r0.get('ref', {}).get('dk') == 'Field' or r0.get('ref', {}).get('sto') == 'param')
            if not (('Definition::Field::' in q or 'Creator::' in q) and from_state):
                continue
            n_asg += 1
            nar = narrowing(rhs)
            chk.check(nar is None, 'R7', f.name, '%s is handed on without loss' % q.split('::')[-1], f.loc(x),
                      'implicit conversion %s -> %s' % nar if nar else '')
    chk.require(n_asg >= 6, 'option assignments in the builder: %d' % n_asg)


def run(chk):
    units = units_matching('library/log/formatting/', 'library/log/detail/log_attributes_container.cpp',
                           'library/log/detail/log_scoped_attribute.cpp', 'library/log/log_attributes.cpp',
                           'library/log/detail/log_msg.cpp', 'library/log/logging.cpp')
    prog = load_program(units)
    chk.units = units
    chk.explanation = (
        'Structural rules over the renderer and the format builder: exhaustiveness of the field-kind switch against '
        'the enum, a frozen 16-row table field kind -> LogMsg getter (and default date/time format strings), single '
        'funnel into append() with the field definition, one place for width/alignment, pending options consumed in '
        'addField() on every path, separator guard, attribute lookup order by dominance and guard, newest-first '
        'search, add/remove pairing of scoped attributes, use of the strftime() result. The rendered text itself is '
        'not decided.')
    chk.assumptions = ['std::setw/std::left manipulators and strftime behave as documented']
    chk.rule('R1', 'renderer: every field kind from the right source, through append(), in order', 20)
    chk.rule('R2', 'builder: pending options apply to exactly one field; separator only between fields', 10)
    chk.rule('R3', 'attribute precedence and scoping', 5)
    chk.rule('R4', 'strftime() result checked', 1)
    chk.rule('R5', 'message getters hand out the stored value; time getters truncate', 15)
    r1(chk, prog)
    r2(chk, prog)
    r3(chk, prog)
    r3_add_balance(chk, prog)
    r3_global_forwarding(chk, prog)
    r4(chk, prog)
    r5_message_getters(chk, prog)
    chk.rule('R6', 'no function-local static memoises data of the first message', 1)
    r6_no_memo(chk, prog)
    chk.rule('R7', 'width / alignment / format string reach the field definition without narrowing', 6)
    r7_lossless_options(chk, prog)
