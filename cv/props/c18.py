"""C18 — The usage lists exactly the visible arguments, each once.

R1 visibility predicate: ArgDesc::doPrint as a boolean function of (pass, isMandatory,
   printHidden, isHidden, printDeprecated, isDeprecated, contents, hasChar, hasString) equals the
   specification table (exhaustive truth table); an argument is visible in at most one pass
R2 once: print() runs the mandatory and the optional pass exactly once each; printArguments()
   visits every argument, prints key and description exactly once per visible argument; every
   argument that is added to the handler is also added to the description list
R3 single-argument help: description (looked up with the found argument's own key) on the found
   branch, 'unknown' message otherwise; both mark the usage as printed
Not decided: layout (column threshold, line breaks) - C17."""
from .. import rules
from ..rules import (callee_is, object_of, field_name, call_args, mentions_field, mentions_call,
                     mentions_var, loops_in, loop_header, loop_iteration_must_pass, Wrapper)
from ..facts import children, strip_all_casts, walk, CALL_KINDS, AnalysisBroken
from ..boolshape import truth_table, Unsupported
from .c17 import path_counts


def r1(chk, prog):
    f = prog.one('celma::prog_args::detail::ArgumentDesc::ArgDesc', 'doPrint')
    en = prog.enums.get('celma::prog_args::detail::UsageParams::Contents')
    chk.require(en is not None, 'enum UsageParams::Contents not found')
    ev = {e['name']: e['val'] for e in en['enumerators']}
    chk.require({'all', 'shortOnly', 'longOnly'} <= set(ev), 'Contents enumerators changed: %s' % ev)
    try:
        atoms, rows = truth_table(f, max_atoms=10, extra_domain=tuple(ev.values()))
    except Unsupported as u:
        raise AnalysisBroken('doPrint not interpretable: %s' % u)
    names = [a for a, _ in atoms]

    def get(env, frag):
        ks = [k for k in env if frag in k]
        if len(ks) > 1:
            raise AnalysisBroken('doPrint: atom %s not unique among %s' % (frag, sorted(env)))
        if not ks:
            return None          # the predicate does not depend on it at all
        return env[ks[0]]
    bad = None
    both = None
    seen = {}
    for env, out, _ in rows:
        p = f.params
        pas, ph, pd, cont = env[p[0]['name']], env[p[1]['name']], env[p[2]['name']], env[p[3]['name']]
        mand, hid, dep = get(env, 'isMandatory'), get(env, 'isHidden'), get(env, 'isDeprecated')
        hc, hs = get(env, 'hasCharArg'), get(env, 'hasStringArg')
        if None in (mand, hid, dep, hc, hs):
            missing = [n for n, v in (('isMandatory', mand), ('isHidden', hid), ('isDeprecated', dep),
                                      ('hasCharArg', hc), ('hasStringArg', hs)) if v is None]
            bad = bad or ('the predicate does not depend on %s' % missing, None)
            continue
        want = (bool(pas) == bool(mand)) and (ph or not hid) and (pd or not dep) and (
            cont == ev['all'] or (cont == ev['shortOnly'] and hc) or (cont == ev['longOnly'] and hs))
        if bool(out[1]) != bool(want) and bad is None:
            bad = (env, out[1])
        key = (ph, pd, cont, mand, hid, dep, hc, hs)
        if out[1]:
            if key in seen and seen[key] != pas:
                both = env
            seen[key] = pas
    chk.check(bad is None, 'R1', f.name, 'visibility predicate equals the specification table (%d rows)' % len(rows),
              f.loc(), 'counter example %s' % (bad,))
    chk.check(both is None, 'R1', f.name, 'an argument is listed under at most one caption', f.loc(),
              'visible in both passes for %s' % (both,))
    chk.samples.append({'doPrint_atoms': names, 'rows': len(rows)})


def r2(chk, prog):
    f = prog.one('celma::prog_args::detail::ArgumentDesc', 'print')
    cfg = f.cfg
    pa = [c for c in f.calls() if callee_is(c, 'ArgumentDesc::printArguments')]
    chk.require(pa, 'print() does not call printArguments()')
    passes = [l for l in loops_in(f) if any(c in list(walk(l)) for c in pa)]
    chk.require(len(passes) == 1 and passes[0].get('k') == 'ForStmt', 'print(): pass loop not found')
    loop = passes[0]
    kids = loop.get('c', [])
    init, cond, inc = kids[0], kids[2], kids[3]
    start = strip_all_casts(init['decls'][0]['init']).get('val') if init and init.get('k') == 'DeclStmt' else None
    c0 = strip_all_casts(cond)
    bound = strip_all_casts(children(c0)[1]).get('val') if c0.get('k') == 'BinaryOperator' else None
    two = start == 0 and c0.get('op') == '<' and bound == 2 and strip_all_casts(inc).get('op') == '++'
    chk.check(two, 'R2', f.name, 'exactly two passes over the arguments', f.loc(loop),
              'loop from %s while %s %s' % (start, c0.get('op'), bound))
    h = loop_header(cfg, loop)
    body = cfg.succ[h][0]
    bypass = cfg.can_reach_exit(cfg.entry_pos(), lambda pos, e: pos[0] == h)
    chk.check(not bypass, 'R2', f.name, 'the two passes are always executed (no early return from print())',
              f.loc(loop), 'a path returns from print() before the mandatory/optional passes: visible arguments '
              'would not be listed at all')
    ids = {c['id'] for c in pa}
    cnt = path_counts(cfg, body, [b for b in cfg.blocks if h in cfg.succs(b) and b != cfg.pred[h][0]][0]
                      if False else h, lambda b: sum(1 for e in cfg.elems(b) if isinstance(e, int) and e in ids))
    chk.check(cnt == {1}, 'R2', f.name, 'each pass prints the argument list exactly once', f.loc(loop),
              'printArguments() calls per pass over all paths: %s' % (sorted(cnt) if cnt else cnt))
    # the pass flag: starts true (mandatory first), complemented once per pass, handed to printArguments
    flag = None
    for c in pa:
        a = strip_all_casts(call_args(c)[2])
        if a.get('k') == 'DeclRefExpr':
            flag = a['ref']['name']
    chk.require(flag is not None, 'print(): pass flag not found')
    init_true = any(n.get('k') == 'DeclStmt' and any(d['name'] == flag and isinstance(d.get('init'), dict) and
                                                     strip_all_casts(d['init']).get('val') in (True, 1)
                                                     for d in n['decls']) for n in f.walk())
    toggles = [n for n in f.walk() if n.get('k') == 'BinaryOperator' and n.get('op') == '=' and
               strip_all_casts(children(n)[0]).get('ref', {}).get('name') == flag]
    tog_ok = len(toggles) == 1 and strip_all_casts(children(toggles[0])[1]).get('op') == '!' and \
        mentions_var(children(toggles[0])[1], flag)
    tcnt = path_counts(cfg, body, h, lambda b: sum(1 for e in cfg.elems(b) if isinstance(e, int) and
                                                  toggles and e == toggles[0]['id']))
    after = tog_ok and all(cfg.reachable_from(cfg.position(c), cfg.position(toggles[0])) and
                           not cfg.reachable_from(cfg.position(toggles[0]), cfg.position(c),
                                                  lambda p, e: p[0] == h) for c in pa)
    chk.check(init_true and tog_ok and tcnt == {1} and after, 'R2', f.name,
              'mandatory pass first, then the complementary optional pass', f.loc())
    # printArguments: every argument visited, key + description once per visible argument
    g = prog.one('celma::prog_args::detail::ArgumentDesc', 'printArguments')
    gcfg = g.cfg
    loops = [l for l in loops_in(g) if any(mentions_field(x, 'mArguments') for x in children(l)[:-1])]
    chk.require(loops, 'printArguments: loop over mArguments not found')
    loop = loops[0]
    kids = loop.get('c', [])
    c0 = strip_all_casts(kids[2])
    full = kids[0] and kids[0].get('k') == 'DeclStmt' and \
        strip_all_casts(kids[0]['decls'][0]['init']).get('val') == 0 and c0.get('op') == '<' and \
        mentions_call(c0, 'size') and strip_all_casts(kids[3]).get('op') == '++'
    chk.check(bool(full), 'R2', g.name, 'the argument loop runs over all defined arguments', g.loc(loop))
    gh = loop_header(gcfg, loop)
    gbody = gcfg.succ[gh][0]
    seen = gcfg.reach((gbody, 0), lambda pos, e: pos[0] == gh)
    chk.check(not any(p[0] == 'exit_from' for p in seen) and
              not (gcfg.succ[gh][1] != gcfg.exit and (gcfg.succ[gh][1], 0) in seen), 'R2', g.name,
              'no argument is skipped by leaving the loop early', g.loc(loop))
    # visible edge of the doPrint test
    vis = None
    for bid, cond in gcfg.cond_blocks():
        if cond is not None and mentions_call(cond, 'doPrint'):
            c1 = strip_all_casts(cond)
            neg = c1.get('k') == 'UnaryOperator' and c1.get('op') == '!'
            vis = (bid, gcfg.succ[bid][1 if neg else 0], gcfg.succ[bid][0 if neg else 1])
            dp = [x for x in walk(cond) if x.get('k') in CALL_KINDS and callee_is(x, 'doPrint')][0]
            a = call_args(dp)
            chk.check(mentions_var(a[0], g.params[2]['name']) and mentions_call(a[1], 'printHidden') and
                      mentions_call(a[2], 'printDeprecated') and mentions_call(a[3], 'contents'), 'R2', g.name,
                      'visibility is evaluated with the current pass and the current usage settings', g.loc(dp))
    chk.require(vis is not None, 'printArguments: doPrint test not found')
    keys = {c['id'] for c in g.calls() if callee_is(c, 'ArgDesc::key')}
    fmts = {c['id'] for c in g.calls() if callee_is(c, 'TextBlock::format')}
    kc = path_counts(gcfg, vis[1], gh, lambda b: sum(1 for e in gcfg.elems(b) if isinstance(e, int) and e in keys))
    fc = path_counts(gcfg, vis[1], gh, lambda b: sum(1 for e in gcfg.elems(b) if isinstance(e, int) and e in fmts))
    hidden_k = path_counts(gcfg, vis[2], gh, lambda b: sum(1 for e in gcfg.elems(b) if isinstance(e, int) and
                                                         e in keys | fmts))
    chk.check(kc == {1} and fc == {1}, 'R2', g.name, 'a visible argument is listed exactly once (keys and description)',
              g.loc(loop), 'per visible argument: key printed %s times, description %s times' % (
                  sorted(kc or []), sorted(fc or [])))
    chk.check(hidden_k == {0}, 'R2', g.name, 'an argument that is not visible prints nothing', g.loc(loop))
    # description text comes from the argument's own description
    for c in g.calls():
        if c['id'] in fmts:
            a = strip_all_casts(call_args(c)[1])
            src = a.get('ref', {}).get('name')
            ok = False
            for n in g.walk():
                if n.get('k') == 'DeclStmt':
                    for d in n['decls']:
                        if d['name'] == src and isinstance(d.get('init'), dict) and \
                                mentions_field(d['init'], 'mDescription'):
                            ok = True
            chk.check(ok, 'R2', g.name, 'the printed text starts from the argument\'s description', g.loc(c))
    # every add path also registers the description
    w = Wrapper(prog, lambda c: callee_is(c, 'ArgumentDesc::addArgument'))
    n = 0
    for hf in prog.functions:
        if hf.classq != 'celma::prog_args::Handler':
            continue
        for c in hf.calls_to('ArgumentContainer::addArgument'):
            n += 1
            pos = hf.cfg.position(c)
            bad = hf.cfg.can_reach_exit((pos[0], pos[1] + 1),
                                        lambda p, e: isinstance(e, int) and hf.node(e) is not None
                                        and w.node_is(hf.node(e)))
            chk.check(not bad, 'R2', hf.name, 'every argument added to the handler is a candidate for the usage',
                      hf.loc(c))
    chk.require(n >= 2, 'add paths into ArgumentContainer: %d' % n)


def r3(chk, prog):
    f = prog.one('celma::prog_args::Handler', 'helpArgument')
    cfg = f.cfg
    gd = [c for c in f.calls() if callee_is(c, 'ArgumentDesc::getArgDesc')]
    chk.require(len(gd) >= 1, 'helpArgument does not read the description')
    for c in gd:
        a = call_args(c)[0]
        ok = mentions_call(a, 'TypedArgBase::key')
        chk.check(ok, 'R3', f.name, 'the description is looked up with the found argument\'s own key', f.loc(c),
                  'the key typed by the user (possibly an abbreviation) is used: no description is found')
    # found / not found branches
    found_conds = []
    for bid, cond in cfg.cond_blocks():
        c0 = strip_all_casts(cond) if cond else None
        if c0 and c0.get('k') == 'BinaryOperator' and c0.get('op') in ('!=', '==') and any(
                x.get('k') == 'CXXNullPtrLiteralExpr' for x in walk(c0)):
            found_conds.append((bid, c0['op']))
    fmts = [c for c in f.calls() if callee_is(c, 'TextBlock::format')]
    ok_found = False
    for c in fmts:
        pos = cfg.position(c)
        for bid, op in found_conds:
            if cfg.guarded_by_edge(pos, bid, 0 if op == '!=' else 1) and \
                    any(cfg.node_dominates(g, c) for g in gd):
                ok_found = True
    chk.check(ok_found, 'R3', f.name, 'the description of a known argument is printed', f.loc())
    unknown_msgs = [n for n in f.walk() if n.get('k') == 'StringLiteral' and 'unknown' in (n.get('val') or '')]
    ok_unknown = False
    for n in unknown_msgs:
        pos = cfg.position(n)
        for bid, op in found_conds:
            if pos is not None and cfg.guarded_by_edge(pos, bid, 1 if op == '!=' else 0):
                ok_unknown = True
    chk.check(ok_unknown and len(unknown_msgs) >= 2, 'R3', f.name,
              'an unknown argument (or sub-group) is reported as unknown', f.loc())
    # every normal return marks the usage as printed (except the delegation to a sub-group handler)
    sets = {n['id'] for n in f.walk() if n.get('k') == 'BinaryOperator' and n.get('op') == '=' and
            field_name(children(n)[0]) == 'mUsagePrinted'}
    deleg = {c['id'] for c in f.calls() if callee_is(c, 'Handler::helpArgument')}
    bad = cfg.can_reach_exit(cfg.entry_pos(), lambda p, e: isinstance(e, int) and (e in sets or e in deleg))
    chk.check(not bad and bool(sets), 'R3', f.name, 'printing the help marks the usage as printed', f.loc())
    # a path 'group/sub/arg' is resolved from the left: the text in front of the FIRST slash names the sub-group of this
    # handler, the rest is handed on - a split at the last slash makes every path with two or more levels 'unknown'
    hf = prog.one('celma::prog_args::Handler', 'helpArgument')
    sl = [c for c in hf.calls() if c.get('k') == 'CXXMemberCallExpr' and
          (c.get('callee') or '').split('::')[-1] in ('find', 'rfind', 'find_first_of', 'find_last_of') and
          any(y.get('k') in ('StringLiteral', 'CharacterLiteral') and y.get('val') in ('/', 47) for y in walk(c))]
    chk.require(sl, 'helpArgument: search for the path separator not found')
    for c in sl:
        nm = (c.get('callee') or '').split('::')[-1]
        chk.check(nm in ('find', 'find_first_of'), 'R3', hf.name, 'a help path is split at its first separator', hf.loc(c),
                  'uses %s()' % nm)


def r5_visibility_arguments(chk, prog, rule='R5'):
    """the visibility predicate is asked with the CURRENT settings at every place: each call of ArgDesc::doPrint()
    passes printHidden() as its 'print hidden' argument, printDeprecated() as its 'print deprecated' argument and
    contents() as the key selection (the column-width pass and the printing pass must judge the same set of
    arguments: otherwise the key column is laid out for arguments that are not printed and the first description
    line starts beyond the block indentation)"""
    dp = prog.one('celma::prog_args::detail::ArgumentDesc::ArgDesc', 'doPrint')
    names = [p_['name'].lower() for p_ in dp.params]
    want = {}
    for i, nm in enumerate(names):
        if 'hidden' in nm:
            want[i] = 'printHidden'
        elif 'deprecated' in nm:
            want[i] = 'printDeprecated'
        elif 'content' in nm:
            want[i] = 'contents'
    if len(want) != 3:
        raise AnalysisBroken('parameters of ArgDesc::doPrint not recognised: %s' % names)
    n = 0
    for f in prog.functions:
        if f.body is None or not (f.classq or '').startswith('celma::prog_args'):
            continue
        for c in f.calls():
            if not callee_is(c, 'ArgDesc::doPrint'):
                continue
            args = call_args(c)
            for i, getter in sorted(want.items()):
                n += 1
                got = sorted({(x.get('callee') or '').split('::')[-1] for x in walk(args[i]) if x.get('k') in CALL_KINDS
                              and (x.get('callee') or '').split('::')[-1] in want.values()})
                chk.check(got == [getter], rule, f.name, 'doPrint() is asked with the current "%s" setting' % getter,
                          f.loc(c), 'argument %d of the call is taken from %s' % (i + 1, got or 'something else'))
    chk.require(n >= 3, 'doPrint() arguments checked: %d' % n)
    return n


def r7_extras(chk, prog, rule='R7'):
    """'plus default value, checks and constraints where configured': in the printing loop every extra line of an
    argument depends on its own property only - whenever the property holds (its test did not say 'no'), the text
    source of that extra is appended before the description is formatted, whatever the other properties are"""
    from ..rules import implied_edges
    f = prog.one('celma::prog_args::detail::ArgumentDesc', 'printArguments')
    cfg = f.cfg
    fmts = [c for c in f.calls() if callee_is(c, 'TextBlock::format')]
    chk.require(fmts, 'printArguments: formatting of the description not found')
    # (property test, text source, name, further tests that legitimately switch the extra off: (getter, value))
    pairs = (('printDefault', 'defaultValue', 'default value', (('isMandatory', True),)),
             ('hasCheck', 'checkStr', 'check', ()),
             ('hasConstraint', 'constraintStr', 'constraint', ()), ('isHidden', None, '[hidden] mark', ()))
    loops = loops_in(f)
    chk.require(loops, 'printArguments: loop over the arguments not found')
    h = loop_header(cfg, loops[0])
    body = cfg.succ[h][0]
    n = 0
    for pred, src, what, also in pairs:
        tests = [c for c in f.calls() if (c.get('callee') or '').endswith('::' + pred)]
        if not tests:
            raise AnalysisBroken('printArguments: no test of %s()' % pred)
        if src is not None:
            texts = [c for c in f.calls() if (c.get('callee') or '').endswith('::' + src)]
        else:
            texts = [c for c in f.calls() if any(x.get('k') == 'StringLiteral' and 'hidden' in (x.get('val') or x.get('str') or '')
                                                for x in walk(c))]
        if not texts:
            raise AnalysisBroken('printArguments: text source of the %s not found' % what)
        off = implied_edges(f, lambda c_: c_.get('k') in CALL_KINDS and (c_.get('callee') or '').endswith('::' + pred),
                            False)
        for getter, val in also:
            off |= implied_edges(f, lambda c_, g_=getter: c_.get('k') in CALL_KINDS and
                                 (c_.get('callee') or '').endswith('::' + g_), val)
        ids = {t['id'] for t in texts}
        seen = cfg.reach((body, 0), lambda p_, e: p_[0] == h or (isinstance(e, int) and e in ids), blocked_edges=off)
        n += 1
        bad = any(cfg.position(c) in seen for c in fmts)
        chk.check(bool(off) and not bad, rule, f.name, 'the %s of an argument is listed whenever it is configured '
                  '(independent of the other extras)' % what, f.loc(tests[0]),
                  'the description can be formatted without the %s although %s() did not say no (the extra depends on '
                  'another property as well)' % (what, pred))
    return n


def r8_settings_wiring(chk, prog, rule='R8'):
    """R8: every display setting is switched by the argument / start flag that is named after it.
     * UsageParams: printHidden()/printDeprecated()/contents() each return one member; addArgumentUsageShort binds
       the contents member with the value shortOnly, ...Long with longOnly, addArgumentPrintHidden/-Deprecated and
       setPrintHidden/-Deprecated the member their reader returns
     * Handler::addArgumentUsageShort/-Long/PrintHidden/PrintDeprecated forward to the UsageParams function of the
       same name
     * the start flags hfUsageHidden, hfArgHidden, hfUsageDeprecated, hfArgDeprecated, hfUsageShort, hfUsageLong of
       the Handler constructor select exactly that function"""
    U = 'celma::prog_args::detail::UsageParams'
    H = 'celma::prog_args::Handler'

    def fields(n):
        return {x['ref'].get('name') for x in walk(n) if x.get('k') == 'MemberExpr' and x['ref'].get('dk') == 'Field'}

    def enumerators(n):
        return {x['ref'].get('name') for x in walk(n) if x.get('k') == 'DeclRefExpr' and
                x['ref'].get('dk') == 'EnumConstant'}
    reader = {}
    for r in ('printHidden', 'printDeprecated', 'contents'):
        f = prog.one(U, r)
        fl = fields(f.body)
        chk.check(len(fl) == 1, rule, f.name, '%s() returns one setting' % r, f.loc(), 'members: %s' % sorted(fl))
        reader[r] = next(iter(fl)) if len(fl) == 1 else None
    chk.check(len(set(reader.values())) == 3, rule, U, 'the three settings are three members', '',
              '%s' % reader)
    binds = {'addArgumentUsageShort': ('contents', 'shortOnly'), 'addArgumentUsageLong': ('contents', 'longOnly'),
             'addArgumentPrintHidden': ('printHidden', None), 'addArgumentPrintDeprecated': ('printDeprecated', None),
             'setPrintHidden': ('printHidden', True), 'setPrintDeprecated': ('printDeprecated', True)}
    for name, (rd, val) in binds.items():
        f = prog.one(U, name)
        fl = fields(f.body)
        ok = fl == {reader[rd]}
        detail = 'touches %s, %s() returns %s' % (sorted(fl), rd, reader[rd])
        if ok and isinstance(val, str):
            en = {e for e in enumerators(f.body) if e in ('all', 'shortOnly', 'longOnly')}
            ok = en == {val}
            detail = 'binds the value %s, expected %s' % (sorted(en), val)
        if ok and val is True:
            asg = [x for x in walk(f.body) if x.get('k') == 'BinaryOperator' and x.get('op') == '=']
            ok = len(asg) == 1 and strip_all_casts(children(asg[0])[1]).get('val') in (True, 1, 'true')
            detail = 'does not assign true'
        chk.check(ok, rule, f.name, '%s() switches the setting that %s() reports%s' % (
            name, rd, ' to %s' % val if isinstance(val, str) else ''), f.loc(), detail)
    ucalls = ('addArgumentUsageShort', 'addArgumentUsageLong', 'addArgumentPrintHidden', 'addArgumentPrintDeprecated',
              'setPrintHidden', 'setPrintDeprecated')

    def usage_calls(f):
        return [c for c in f.calls() if (c.get('callee') or '').startswith(U + '::') and
                (c.get('callee') or '').split('::')[-1] in ucalls]
    n_fw = 0
    for name in ucalls[:4]:
        fs = [f for f in prog.functions if f.classq == H and f.short == name and f.body is not None]
        n_fw += len(fs)             # (the handler has no addArgumentPrintDeprecated() of its own)
        for f in fs:
            got = [(c.get('callee') or '').split('::')[-1] for c in usage_calls(f)]
            chk.check(got == [name] and not f.cfg.must_pass_through(lambda n: n in usage_calls(f)), rule, f.name,
                      'Handler::%s forwards to UsageParams::%s' % (name, name), f.loc(), 'calls %s' % got)
    chk.require(n_fw >= 3, 'forwarding functions of the Handler found: %d' % n_fw)
    flags = {'hfUsageHidden': 'setPrintHidden', 'hfArgHidden': 'addArgumentPrintHidden',
             'hfUsageDeprecated': 'setPrintDeprecated', 'hfArgDeprecated': 'addArgumentPrintDeprecated',
             'hfUsageShort': 'addArgumentUsageShort', 'hfUsageLong': 'addArgumentUsageLong'}
    seen = {}
    for f in prog.functions:
        if f.classq != H or f.body is None or f.short not in ('Handler', 'handleStartFlags'):
            continue
        cfg = f.cfg
        for c in usage_calls(f):
            pos = cfg.position(c)
            guards = set()
            for bid, cond in cfg.cond_blocks():
                if cond is not None and cfg.guarded_by_edge(pos, bid, 0):
                    guards |= {e for e in enumerators(cond) if e.startswith('hf')}
            callee = (c.get('callee') or '').split('::')[-1]
            want = [k for k, v in flags.items() if v == callee]
            ok = guards == set(want)
            seen.setdefault(callee, []).append(ok)
            chk.check(ok, rule, f.name, 'start flag %s selects %s()' % ('/'.join(want), callee), f.loc(c),
                      'guarded by %s' % sorted(guards))
    missing = sorted(set(flags.values()) - set(seen))
    chk.check(not missing, rule, H, 'every usage start flag is wired', '', 'no call of %s under a start flag' % missing)


def r9_property_getters(chk, prog, rule='R9'):
    """R9: the visibility predicate asks TypedArgBase::isMandatory/isHidden/isDeprecated - each of them reports ONE
    stored flag, unconditioned, and every setter of the property (setIsMandatory, setIsHidden, setIsDeprecated, and
    setReplacedBy, which makes an argument deprecated as well) stores true into that flag on every normal path"""
    T = 'celma::prog_args::detail::TypedArgBase'
    table = {'isMandatory': ('setIsMandatory',), 'isHidden': ('setIsHidden',),
             'isDeprecated': ('setIsDeprecated', 'setReplacedBy')}
    flags = {}
    for g, setters in table.items():
        f = prog.one(T, g)
        rets = [x for x in f.walk() if x.get('k') == 'ReturnStmt']
        v = strip_all_casts(children(rets[0])[0]) if len(rets) == 1 and children(rets[0]) else {}
        fl = {x['ref'].get('name') for x in f.walk() if x.get('k') == 'MemberExpr' and x['ref'].get('dk') == 'Field'}
        ok = v.get('k') == 'MemberExpr' and fl == {v['ref'].get('name')} and not list(f.calls())
        chk.check(ok, rule, f.name, '%s() reports one stored flag, unconditioned' % g, f.loc(),
                  'members consulted: %s' % sorted(fl))
        if not ok:
            continue
        flag = v['ref'].get('name')
        flags[g] = flag
        for sname in setters:
            sf = prog.one(T, sname)
            stores = [x for x in sf.walk() if x.get('k') == 'BinaryOperator' and x.get('op') == '=' and
                      field_name(children(x)[0]) == flag and
                      strip_all_casts(children(x)[1]).get('k') == 'CXXBoolLiteralExpr' and
                      strip_all_casts(children(x)[1]).get('val') in (True, 1)]
            off = sf.cfg.must_pass_through(lambda n: any(n is x for x in stores)) if stores else ['no store']
            chk.check(bool(stores) and not off, rule, sf.name, '%s() stores true into the flag that %s() reports, on '
                      'every normal path' % (sname, g), sf.loc())
    chk.check(len(set(flags.values())) == len(flags), rule, T, 'the three properties are three flags', '', '%s' % flags)
    # ... and independent of each other: a setter of one property writes no flag of another one (making an argument
    # mandatory does not un-hide it), whatever the order in which the properties are set
    owner = {v: k for k, v in flags.items()}
    for g, setters in table.items():
        for sname in setters:
            sf = prog.one(T, sname)
            foreign = sorted({field_name(children(x)[0]) for x in sf.walk() if x.get('k') == 'BinaryOperator' and
                              x.get('op') == '=' and field_name(children(x)[0]) in owner and
                              field_name(children(x)[0]) != flags.get(g)})
            chk.check(not foreign, rule, sf.name, '%s() changes no other visibility property' % sname, sf.loc(),
                      'it also writes %s (reported by %s())' % (foreign, ', '.join(owner[x] for x in foreign)))


def r10_listing_data_is_configuration(chk, prog, rule='R10'):
    """R10: what the usage lists about an argument (checks, constraints, the hidden / deprecated / mandatory flags, the
    print-default switch) is configuration: the members behind hasCheck()/hasConstraint()/... are modified only by
    constructors, the destructor and the definition-time API (add* / set* / unset*), never by a function that runs
    while a command line is evaluated - otherwise the usage printed after some arguments were used differs from
    the usage printed before"""
    T = 'celma::prog_args::detail::TypedArgBase'
    getters = ('hasCheck', 'hasConstraint', 'isHidden', 'isDeprecated', 'isMandatory', 'printDefault', 'isReplaced')
    fields = set()
    for g in getters:
        f = prog.one(T, g)
        fields |= {x['ref'].get('name') for x in f.walk() if x.get('k') == 'MemberExpr' and x['ref'].get('dk') == 'Field'}
    chk.require(len(fields) >= 6, 'members behind the listing getters: %s' % sorted(fields))
    n = 0
    for f in prog.functions:
        if f.classq != T or f.body is None:
            continue
        allowed = f.d.get('ctor') or f.short.startswith('~') or f.short.startswith(('add', 'set', 'unset')) or \
            f.short in ('operator=',)
        for x in f.walk():
            fld = None
            if x.get('k') in ('BinaryOperator', 'CompoundAssignOperator') and x.get('op', '').endswith('=') and \
                    x.get('op') not in ('==', '!=', '<=', '>='):
                fld = field_name(children(x)[0])
            elif x.get('k') == 'CXXOperatorCallExpr' and x.get('op') in ('=', '+='):
                fld = field_name(call_args(x)[0])
            elif x.get('k') == 'CXXMemberCallExpr' and not x.get('cconst') and field_name(object_of(x)) in fields and \
                    (x.get('callee') or '').split('::')[-1] not in ('begin', 'end', 'empty', 'size', 'cbegin', 'cend'):
                fld = field_name(object_of(x))
            elif x.get('k') == 'CallExpr':
                for a, pk in zip(call_args(x), x.get('pk') or []):
                    if pk in ('ref', 'ptr') and field_name(a) in fields:
                        fld = field_name(a)
            if fld in fields:
                n += 1
                chk.check(bool(allowed), rule, f.name, 'the listing data %s is changed by the definition-time API only'
                          % fld, f.loc(x), '%s() runs during the evaluation of a command line' % f.short)
    chk.require(n >= 8, 'writes of the listing data found: %d' % n)


def r11_captions(chk, prog, rule='R11'):
    """the caption above the mandatory arguments is the mandatory caption: printArguments() streams one caption member
    on the mandatory pass and another one on the optional pass; setCaption( mandatory, optional) assigns its FIRST
    parameter to the former and its SECOND to the latter, each under the null test of that same parameter"""
    AD = 'celma::prog_args::detail::ArgumentDesc'
    f = prog.one(AD, 'printArguments')
    cfg = f.cfg
    pm = [p['name'] for p in f.params if 'bool' in p['t']][0]
    from ..rules import implied_edges
    on_m = implied_edges(f, lambda x: x.get('k') == 'DeclRefExpr' and x['ref'].get('name') == pm, True)
    on_o = implied_edges(f, lambda x: x.get('k') == 'DeclRefExpr' and x['ref'].get('name') == pm, False)
    cap = {'m': set(), 'o': set()}
    for c in f.calls():
        if c.get('k') == 'CXXOperatorCallExpr' and c.get('op') == '<<' and len(call_args(c)) == 2:
            fld = field_name(call_args(c)[1])
            if fld and 'aption' in fld:
                pos = cfg.position(c)
                if any(b in cfg.succ[a] and cfg.guarded_by_edge(pos, a, cfg.succ[a].index(b)) for a, b in on_m):
                    cap['m'].add(fld)
                if any(b in cfg.succ[a] and cfg.guarded_by_edge(pos, a, cfg.succ[a].index(b)) for a, b in on_o):
                    cap['o'].add(fld)
    ok = len(cap['m']) == 1 and len(cap['o']) == 1 and cap['m'] != cap['o']
    chk.check(ok, rule, f.name, 'the two passes print two different captions, each on its own pass', f.loc(),
              'mandatory pass: %s, optional pass: %s' % (sorted(cap['m']), sorted(cap['o'])))
    if not ok:
        return
    want = [next(iter(cap['m'])), next(iter(cap['o']))]
    g = prog.one(AD, 'setCaption')
    for i, p_ in enumerate(g.params[:2]):
        asg = []
        for x in g.walk():
            if x.get('k') in CALL_KINDS and field_name(object_of(x) if x.get('k') == 'CXXMemberCallExpr' else
                                                    (call_args(x)[0] if call_args(x) else None)) and \
                    any(mentions_var(a, p_['name']) for a in call_args(x)):
                tgt = field_name(object_of(x)) if x.get('k') == 'CXXMemberCallExpr' else field_name(call_args(x)[0])
                if tgt and 'aption' in tgt:
                    asg.append((x, tgt))
        okp = len(asg) == 1 and asg[0][1] == want[i]
        if okp:
            pos = g.cfg.position(asg[0][0])
            nn = implied_edges(g, lambda x: x.get('k') == 'BinaryOperator' and x.get('op') == '!=' and
                               mentions_var(x, p_['name']), True)
            okp = any(b in g.cfg.succ[a] and g.cfg.guarded_by_edge(pos, a, g.cfg.succ[a].index(b)) for a, b in nn)
        chk.check(okp, rule, g.name, 'parameter %d of setCaption() sets the caption of the %s arguments' % (
            i + 1, ('mandatory', 'optional')[i]), g.loc(), 'it sets %s, the %s pass prints %s' % (
                [t for _, t in asg], ('mandatory', 'optional')[i], want[i]))


def r12_default_value_available(chk, prog, rule='R12'):
    """the usage prints "Default value: ..." for every optional argument whose print-default switch is on, by calling
    the virtual defaultValue() - whose base implementation THROWS.  Every argument class that switches print-default
    on in its constructor (third argument of the TypedArgBase constructor true) therefore overrides defaultValue():
    otherwise printing the usage of a handler that owns such an argument ends in an exception in the middle of the
    list"""
    T = 'celma::prog_args::detail::TypedArgBase'
    base = prog.one(T, 'defaultValue')
    chk.require(any(x.get('k') == 'CXXThrowExpr' for x in base.walk()), 'TypedArgBase::defaultValue() no longer throws')
    n = 0
    seen = set()
    for f in prog.functions:
        if not f.d.get('ctor') or not f.cls or f.cls in seen:
            continue
        on = None
        for ini in f.inits:
            init = ini.get('init')
            if not isinstance(init, dict):
                continue
            i0 = strip_all_casts(init)
            if i0.get('k') == 'CXXConstructExpr' and (i0.get('callee') or '').endswith('TypedArgBase::TypedArgBase'):
                a = children(i0)
                if len(a) >= 3:
                    v = strip_all_casts(a[2])
                    on = v.get('val') if v.get('k') == 'CXXBoolLiteralExpr' else 'param'
        if on is not True:
            continue
        seen.add(f.cls)
        n += 1
        own = [g for g in prog.functions if g.cls == f.cls and g.short == 'defaultValue']
        chk.check(bool(own), rule, f.name, 'an argument class that prints its default value in the usage provides '
                  'defaultValue()', f.loc(), 'print-default is switched on in the constructor, but defaultValue() is '
                  'the throwing base implementation: the usage of a handler with such an argument ends in an exception')
    chk.require(n >= 2, 'argument classes with print-default on: %d' % n)


def r13_text_block_width(chk, prog, rule='R13'):
    """the descriptions are wrapped at the configured line length: every TextBlock that the usage printer creates gets
    the line-length member (the one setLineLength() stores into) as its width - in every layout branch"""
    AD = 'celma::prog_args::detail::ArgumentDesc'
    setter = prog.one(AD, 'setLineLength')
    fld = {field_name(children(x)[0]) for x in setter.walk() if x.get('k') == 'BinaryOperator' and x.get('op') == '='}
    fld.discard(None)
    chk.require(len(fld) == 1, 'ArgumentDesc::setLineLength: stored member not found')
    width = next(iter(fld))
    n = 0
    for f in prog.functions:
        if f.classq != AD or f.body is None:
            continue
        for x in f.walk():
            if x.get('k') in ('CXXConstructExpr', 'CXXTemporaryObjectExpr') and \
                    (x.get('callee') or '').endswith('TextBlock::TextBlock') and len(children(x)) >= 2:
                n += 1
                a = children(x)[1]
                chk.check(field_name(a) == width, rule, f.name, 'the description block is as wide as the configured line '
                          'length', f.loc(x), 'width argument is %s, setLineLength() stores into %s' % (
                              field_name(a) or strip_all_casts(a).get('ref', {}).get('name') or 'a constant', width))
    chk.require(n >= 2, 'TextBlock objects created by the usage printer: %d' % n)


def r4_one_settings_object(chk, prog):
    """'visible under the CURRENT settings': the usage settings (print hidden / deprecated, short-only / long-only)
    live in one UsageParams object per handler family; the arguments that change them at run time write into that
    object and the description printer (Handler::mDescription, an ArgumentDesc holding its own shared pointer)
    reads from it.  So (a) a sub-group handler takes the very object of its main handler (no private copy), and (b)
    whoever replaces Handler::mpUsageParams also hands the new object to mDescription - otherwise settings and
    printer are two objects and a requested display is ignored"""
    hs = [f for f in prog.functions if f.classq == 'celma::prog_args::Handler']
    # (a) constructors that take another handler
    n = 0
    for f in hs:
        if not f.d.get('ctor') or not f.params or 'Handler &' not in (f.params[0]['t'] or '').replace('&', ' &').replace('  ', ' '):
            continue
        main = f.params[0]['name']
        for i in f.inits:
            if i.get('name') != 'mpUsageParams' or not isinstance(i.get('init'), dict):
                continue
            n += 1
            init = i['init']
            from_main = any(x.get('k') == 'MemberExpr' and x.get('ref', {}).get('name') == 'mpUsageParams' and
                            mentions_var(x, main) for x in walk(init))
            fresh = any(x.get('k') == 'CXXNewExpr' or (x.get('k') in CALL_KINDS and 'make_shared' in (x.get('callee') or ''))
                        for x in walk(init))
            chk.check(from_main and not fresh, 'R4', f.name, 'a sub-group handler shares the usage settings object of '
                      'its main handler', f.loc(init), 'the settings are %s: a display requested on the main handler '
                      'at run time does not reach the usage of the sub-group' % (
                          'copied into a new object' if fresh else 'not taken from the main handler'))
    chk.require(n >= 1, 'constructor Handler( Handler& main, ...) with an initialiser for mpUsageParams not found')
    # (b) replacing the settings object of a handler
    m = 0
    for f in hs:
        if f.d.get('ctor') or f.body is None:
            continue
        for x in f.walk():
            is_assign = (x.get('k') == 'BinaryOperator' and x.get('op') == '=' and
                         field_name(children(x)[0]) == 'mpUsageParams') or \
                        (x.get('k') == 'CXXOperatorCallExpr' and x.get('op') == '=' and call_args(x) and
                         field_name(x['c'][1] if len(x.get('c', [])) > 1 else {}) == 'mpUsageParams')
            if not is_assign:
                continue
            m += 1
            told = [c for c in f.calls() if field_name(object_of(c)) == 'mDescription'] + \
                   [y for y in f.walk() if y.get('k') in ('BinaryOperator', 'CXXOperatorCallExpr') and y.get('op') == '='
                    and y is not x and any(z.get('k') == 'MemberExpr' and z.get('ref', {}).get('name') == 'mDescription'
                                           for z in walk(y))]
            chk.check(bool(told), 'R4', f.name, 'replacing the usage settings object of a handler also re-targets its '
                      'description printer (mDescription)', f.loc(x), 'mDescription keeps its own shared pointer to the '
                      'previous UsageParams object: settings made through the new object (e.g. --print-hidden defined '
                      'after the handler joined a group) are ignored when this handler prints its usage')
    return n + m


def run(chk):
    prog, units = rules.prog_args_program()
    chk.units = units
    chk.explanation = (
        'Exhaustive truth table (Engine B) of the visibility predicate ArgDesc::doPrint over all combinations of its '
        'nine atoms against the specification table, plus mutual exclusion of the two passes; path-counting on the '
        'CFGs of ArgumentDesc::print/printArguments (each pass exactly once, every visible argument\'s keys and '
        'description streamed exactly once, nothing for invisible ones, no early loop exit); must-pass-through of the '
        'description registration on every add path; branch/guard rules for the single-argument help. '
        'Not decided: layout.')
    chk.assumptions = []
    chk.rule('R1', 'visibility predicate equals the specification', 2)
    chk.rule('R2', 'two complementary passes; every visible argument listed exactly once', 10)
    chk.rule('R3', 'single-argument help', 4)
    chk.rule('R4', 'settings and description printer of a handler family use one UsageParams object', 2)
    r1(chk, prog)
    r2(chk, prog)
    r3(chk, prog)
    r4_one_settings_object(chk, prog)
    chk.rule('R5', 'every visibility decision uses the current settings (column-width pass == printing pass)', 3)
    r5_visibility_arguments(chk, prog)
    chk.rule('R7', 'default value, check, constraint and hidden mark are listed whenever configured', 4)
    r7_extras(chk, prog)
    chk.rule('R10', 'checks, constraints and flags listed in the usage are changed by the definition-time API only', 8)
    r10_listing_data_is_configuration(chk, prog)
    chk.rule('R11', 'each pass prints its own caption; setCaption() sets them in the documented order', 3)
    r11_captions(chk, prog)
    chk.rule('R13', 'the description blocks of the usage are as wide as the configured line length', 2)
    r13_text_block_width(chk, prog)
    # the keys that the usage lists are the keys the argument was defined with: key-specification parser (C05-R7)
    chk.rule('R14', 'the listed keys are the keys of the specification (two-part key specification, shared with C05-R7)', 5)
    from . import c05 as _c05
    _c05.r7_two_part_spec(chk, prog, rule='R14')
    chk.rule('R12', 'every argument class with print-default on provides defaultValue()', 2)
    r12_default_value_available(chk, prog)
    chk.rule('R9', 'isMandatory/isHidden/isDeprecated report the configured properties', 7)
    r9_property_getters(chk, prog)
    chk.rule('R8', 'every display setting is switched by the argument / start flag named after it', 15)
    r8_settings_wiring(chk, prog)
    # R6: the description text is formatted by TextBlock: no word of it is lost (C17-R1, same unit)
    from . import c17
    chk.rule('R6', 'the description of a listed argument is printed completely (text-block rules of C17)', 5)
    sub = type(chk)(chk.pid, chk.tier)
    sub._known = []
    from ..facts import load_program, units_matching
    tb_units = units_matching('library/format/text_block.cpp')
    c17.r1(sub, load_program(tb_units))
    chk.units = list(chk.units) + tb_units
    for o in sub.obligations:
        chk.check(o['status'] == 'held', 'R6', o['function'], o['what'], o['where'], o.get('detail', ''))
