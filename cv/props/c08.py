"""C08 — Evaluating through an argument group equals one handler owning all arguments.

R1 end-check agreement: for every member handler Groups::evalArguments runs the
   same end-of-evaluation obligations that C02-R1 establishes for
   Handler::evalArguments
R2 dispatch: every element is offered to the members in order until one knows
   it; an element nobody knows ends in an exception (shared with C02-R5)
R3 cross-handler key conflicts: every path that adds an argument to a handler
   used by a group reaches Groups::crossCheckArguments; checkArgMix compares
   every pair of stored keys with == and mismatch()"""
from .. import rules
from ..rules import (callee_is, object_of, field_name, call_args, mentions_field, mentions_call,
                     Wrapper, exempt_edges, loops_in, loop_header, loop_iteration_must_pass,
                     enclosing_loops, mentions_var)
from ..facts import children, strip_all_casts, walk, CALL_KINDS, AnalysisBroken
from .c02 import end_check_targets, usage_atom, r5_unknown


def member_target(pred):
    """an end check applied to a member handler: the call is made on (an object reached through)
    the loop's current member, either directly on the member's fields or through Handler methods"""
    return pred


def r1(chk, prog):
    f = prog.one('celma::prog_args::Groups', 'evalArguments', pred=lambda f: len(f.params) == 2)
    cfg = f.cfg
    ex = exempt_edges(f, usage_atom(f), True)
    member_loops = [l for l in loops_in(f)
                    if any(mentions_field(h, 'mArgGroups') for h in children(l)[:-1])]
    chk.require(member_loops, 'Groups::evalArguments: no loop over mArgGroups')
    for name, pred in end_check_targets().items():
        # inside Handler the object is this->mArguments; from Groups it is handler->mArguments
        w = Wrapper(prog, pred)
        ok = False
        detail = 'no loop over the member handlers runs this check for every member'
        for loop in member_loops:
            if not any(w.node_is(n) for n in walk(loop) if n.get('k') in CALL_KINDS):
                continue
            off = loop_iteration_must_pass(cfg, loop, w.node_is)
            h = loop_header(cfg, loop)
            skip = cfg.can_reach_exit(cfg.entry_pos(), lambda pos, e: pos[0] == h, blocked_edges=ex)
            if not off and not skip:
                ok = True
            else:
                detail = '; '.join(off + (['a normal-return path (usage not printed) bypasses the loop']
                                          if skip else []))
        chk.check(ok, 'R1', f.name, 'end check for every member: ' + name, f.loc(), detail)


def r2(chk, prog):
    f = prog.one('celma::prog_args::Groups', 'evalArguments', pred=lambda f: len(f.params) == 2)
    cfg = f.cfg
    calls = list(f.calls_to('Handler::evalSingleArgument'))
    chk.require(calls, 'Groups::evalArguments does not call evalSingleArgument')
    for c in calls:
        loops = enclosing_loops(f, c)
        inner = [l for l in loops if any(mentions_field(h, 'mArgGroups') for h in children(l)[:-1])]
        chk.check(bool(inner), 'R2', f.name, 'every element is offered to the member handlers in turn', f.loc(c))
        if not inner:
            continue
        # leaving the member loop early only when the result is not 'unknown'
        loop = inner[0]
        h = loop_header(cfg, loop)
        out = cfg.succ[h][1]
        pos = cfg.position(c)
        unknown_edges = set()
        for bid, cond in cfg.cond_blocks():
            cc = strip_all_casts(cond) if cond else None
            if cc and cc.get('k') == 'BinaryOperator' and cc.get('op') in ('==', '!=') and any(
                    x.get('k') == 'DeclRefExpr' and x.get('ref', {}).get('q', '').endswith('ArgResult::unknown')
                    for x in walk(cc)):
                e = cfg.edge_guard(bid, 1 if cc['op'] == '==' else 0)   # the 'known' edge
                if e:
                    unknown_edges.add(e)
        # with result == unknown (known-edges blocked) the only way on is the loop header (next member)
        seen = cfg.reach((pos[0], pos[1] + 1), lambda p, e: p[0] == h, blocked_edges=unknown_edges)
        leaves = out is not None and (out, 0) in seen
        chk.check(not leaves, 'R2', f.name, 'an unknown result moves on to the next member handler', f.loc(c),
                  'the member loop can be left although the result is still unknown')
        # the member's own evalSingleArgument is the dispatch point (so all C02 rules apply per member)
        obj = object_of(c)
        chk.check(obj is not None, 'R2', f.name, 'dispatch through the member\'s own evalSingleArgument', f.loc(c))
    # members identify arguments through handleIdentifiedArg: covered by C02-R2 on Handler::processArg
    last_arg_rule(chk, prog, 'R2')


def last_arg_rule(chk, prog, rule):
    """a key element offered to a handler always closes the value list of that handler's previous
    multi-value argument - also when the handler does not know the key (it may belong to another member
    of the group): every normal-return path of processArg writes mpLastArg"""
    f = prog.one('celma::prog_args::Handler', 'processArg')
    cfg = f.cfg
    writes = set()
    for n in f.walk():
        if n.get('k') == 'BinaryOperator' and n.get('op') == '=':
            # chained assignment  mpLastArg = p = findArg(): the outermost '=' is the CFG element
            for x in walk(n):
                if x.get('k') == 'BinaryOperator' and x.get('op') == '=' and \
                        field_name(children(x)[0]) == 'mpLastArg':
                    writes.add(n['id'])
    chk.require(writes, 'processArg never assigns mpLastArg')
    bad = cfg.can_reach_exit(cfg.entry_pos(), lambda pos, e: isinstance(e, int) and e in writes)
    chk.check(not bad, rule, f.name, 'a key element always ends the free-value list of the previous argument '
              '(also when the key belongs to another handler)', f.loc(),
              'processArg can return without updating mpLastArg: a later free value is still routed to the '
              'stale multi-value argument of this handler')


def r3(chk, prog):
    # every Handler function that adds to mArguments / mSubGroupArgs / bracket handlers
    adders = []
    for g in prog.functions:
        if g.classq != 'celma::prog_args::Handler':
            continue
        adds = []
        for c in g.calls_to('ArgumentContainer::addArgument'):
            fn = field_name(object_of(c))
            if fn in ('mArguments', 'mSubGroupArgs'):
                adds.append((c, fn))
        for n in g.walk():
            if n.get('k') in ('BinaryOperator', 'CXXOperatorCallExpr') and n.get('op') == '=':
                lhs = strip_all_casts(call_args(n)[0] if n['k'] == 'CXXOperatorCallExpr' else children(n)[0])
                if field_name(lhs) in ('mpOpeningBracketHdlr', 'mpClosingBracketHdlr'):
                    adds.append((n, field_name(lhs)))
        if adds:
            adders.append((g, adds))
    chk.require(len(adders) >= 3, 'only %d functions add arguments to a Handler' % len(adders))
    w = Wrapper(prog, lambda c: callee_is(c, 'Groups::crossCheckArguments'))
    for g, adds in adders:
        cfg = g.cfg
        # only the handler's OWN membership flag excuses the missing check (the flag of another handler, e.g. of the
        # sub-group handler that is being attached, says nothing about this one)
        ex = exempt_edges(g, lambda c: c.get('k') == 'MemberExpr' and c['ref']['name'] == 'mUsedByGroup' and (
            not children(c) or strip_all_casts(children(c)[0]).get('k') == 'CXXThisExpr'), False)
        for c, fn in adds:
            pos = cfg.position(c)
            bad = cfg.can_reach_exit((pos[0], pos[1] + 1), lambda p, e: isinstance(e, int) and
                                     g.node(e) is not None and w.node_is(g.node(e)), blocked_edges=ex)
            chk.check(not bad, 'R3', g.name, 'adding to %s is followed by the cross-handler check' % fn,
                      g.loc(c), 'a handler that is used by an argument group can return from this function '
                      'without Groups::crossCheckArguments()')
    # Groups::crossCheckArguments compares with every other member
    f = prog.one('celma::prog_args::Groups', 'crossCheckArguments')
    ok = False
    for loop in loops_in(f):
        if any(mentions_field(h, 'mArgGroups') for h in children(loop)[:-1]) and any(
                callee_is(c, 'Handler::crossCheckArguments') for c in walk(loop) if c.get('k') in CALL_KINDS):
            ok = True
    chk.check(ok, 'R3', f.name, 'the modified handler is cross-checked against every member', f.loc())
    # ... against EVERY other member: the loop that performs the comparison is left only at its end (or by the
    # exception of a conflict) - whichever member was created first
    cfg = f.cfg
    for loop in loops_in(f):
        if not (any(mentions_field(h, 'mArgGroups') for h in children(loop)[:-1]) and any(
                callee_is(c, 'Handler::crossCheckArguments') for c in walk(loop) if c.get('k') in CALL_KINDS)):
            continue
        h = loop_header(cfg, loop)
        body = cfg.succ[h][0]
        seen = cfg.reach((body, 0), lambda pos, e: pos[0] == h)
        off = []
        if any(('exit_from', p_) in seen for p_ in cfg.pred[cfg.exit] if cfg.exit_kind(p_) == 'return'):
            off.append('the scan can return before all members were compared')
        out = cfg.succ[h][1]
        if out is not None and out != cfg.exit and (out, 0) in seen:
            off.append('the scan can be left by break before all members were compared')
        chk.check(not off, 'R3', f.name, 'the cross-check visits every member handler, whatever the order of creation',
                  f.loc(loop), '; '.join(off))
    # Handler::crossCheckArguments: all four container pairs
    f = prog.one('celma::prog_args::Handler', 'crossCheckArguments')
    pairs = set()
    for c in f.calls_to('ArgumentContainer::checkArgMix'):
        a = field_name(object_of(c))
        args = call_args(c)
        b = field_name(args[-1]) if args else None
        pairs.add((a, b))
    want = {(a, b) for a in ('mArguments', 'mSubGroupArgs') for b in ('mArguments', 'mSubGroupArgs')}
    cfg = f.cfg
    for p in sorted(want):
        hit = [c for c in f.calls_to('ArgumentContainer::checkArgMix')
               if (field_name(object_of(c)), field_name(call_args(c)[-1])) == p]
        good = bool(hit) and not cfg.must_pass_through(lambda n: n in hit)
        chk.check(good, 'R3', f.name, 'container pair %s x %s compared on every path' % p, f.loc())
    # ... and each pair is (own container, container OF THE OTHER handler): the object is a member of *this, the
    # argument a member of the handler that was passed in
    other_param = f.params[-1]['name']
    for c in f.calls_to('ArgumentContainer::checkArgMix'):
        def base_of(e):
            e = strip_all_casts(e) if e is not None else {}
            if e.get('k') != 'MemberExpr' or not children(e):
                return None
            b = strip_all_casts(children(e)[0])
            if b.get('k') == 'CXXThisExpr':
                return 'this'
            if b.get('k') == 'DeclRefExpr':
                return b['ref'].get('name')
            return '?'
        own_b, oth_b = base_of(object_of(c)), base_of(call_args(c)[-1] if call_args(c) else None)
        chk.check(own_b == 'this' and oth_b == other_param, 'R3', f.name, 'the comparison is between a container of '
                  'this handler and a container of the other handler', f.loc(c),
                  'compares a container of %s with a container of %s' % (own_b, oth_b))
    # ... for every handler that asks - also one that is not (yet) in the member list, as during the construction of a
    # member, when the standard arguments of its start flags are added: no return in front of the comparison loop
    gx = prog.one('celma::prog_args::Groups', 'crossCheckArguments')
    for loop in loops_in(gx):
        if not any(c.get('k') in CALL_KINDS and callee_is(c, 'Handler::crossCheckArguments') for c in walk(loop)):
            continue
        hx = loop_header(gx.cfg, loop)
        seen_x = gx.cfg.reach(gx.cfg.entry_pos(), lambda pos, e: pos[0] == hx)
        early = any(p_[0] == 'exit_from' and gx.cfg.exit_kind(p_[1]) == 'return' for p_ in seen_x)
        chk.check(not early, 'R3', gx.name, 'the cross-check is carried out for every handler that asks for it (no return '
                  'in front of the comparison loop)', gx.loc(loop), 'a handler that is not yet in the member list - a '
                  'member under construction - is not compared at all')
    # Groups::crossCheckArguments: the modified handler is compared with every member BUT itself, and the call hands
    # the member of the current iteration to the modified handler
    g = prog.one('celma::prog_args::Groups', 'crossCheckArguments')
    mod = g.params[0]['name']
    from ..rules import implied_edges
    for loop in loops_in(g):
        calls = [c for c in walk(loop) if c.get('k') in CALL_KINDS and callee_is(c, 'Handler::crossCheckArguments')]
        if not calls or loop.get('k') != 'CXXForRangeStmt':
            continue
        lv = children(loop)[1]['decls'][0]['name']

        def same_test(x, op):
            return x.get('k') in ('BinaryOperator', 'CXXOperatorCallExpr') and x.get('op') == op and \
                mentions_var(x, mod) and mentions_var(x, lv)
        differ = implied_edges(g, lambda x: same_test(x, '=='), False) | implied_edges(g, lambda x: same_test(x, '!='), True)
        same = implied_edges(g, lambda x: same_test(x, '=='), True) | implied_edges(g, lambda x: same_test(x, '!='), False)
        for c in calls:
            pos = g.cfg.position(c)
            guarded = any(b in g.cfg.succ[a] and g.cfg.guarded_by_edge(pos, a, g.cfg.succ[a].index(b)) for a, b in differ)
            # reachable over a 'same handler' edge?
            seen = set()
            for a, b in same:
                seen |= g.cfg.reach((b, 0), lambda p_, e: p_[0] == loop_header(g.cfg, loop))
            chk.check(guarded and pos not in seen, 'R3', g.name, 'the modified handler is compared with every member '
                      'but itself', g.loc(c), 'the comparison is %s' % (
                          'also made with the handler itself' if pos in seen else 'not restricted to the OTHER members'))
            obj = object_of(c)
            args = call_args(c)
            ok = obj is not None and mentions_var(obj, mod) and not mentions_var(obj, lv) and bool(args) and \
                mentions_var(args[-1], lv) and not mentions_var(args[-1], mod)
            chk.check(ok, 'R3', g.name, 'the member of the current iteration is handed to the modified handler',
                      g.loc(c))
    r3_check_arg_mix(chk, prog)


def r3_check_arg_mix(chk, prog, rule='R3'):
    """ArgumentContainer::checkArgMix(): every key of one container is compared with every key of the other; equal
    keys and mismatching short/long pairs both end in an exception; each comparison relates own x other"""
    # checkArgMix: nested loops over both containers, == and mismatch both lead to throw
    f = prog.one('celma::prog_args::detail::ArgumentContainer', 'checkArgMix')
    cfg = f.cfg
    loops = loops_in(f)
    chk.check(len(loops) >= 2, rule, f.name, 'every key of one container is compared with every key of the other',
              f.loc())
    for what, test in (('equal keys', lambda c: c.get('k') == 'CXXOperatorCallExpr' and c.get('op') == '==' and
                        'ArgumentKey' in (c.get('callee') or '') or callee_is(c, 'operator==') and
                        any('ArgumentKey' in (x.get('t') or '') for x in children(c))),
                       ('mismatching short/long pairs', lambda c: callee_is(c, 'ArgumentKey::mismatch'))):
        found = False
        for bid, cond in cfg.cond_blocks():
            if cond is None or not any(test(x) for x in walk(cond) if x.get('k') in CALL_KINDS):
                continue
            tgt = cfg.succ[bid][0]
            if tgt is None:
                continue
            seen = cfg.reach((tgt, 0))
            rets = [p for p in cfg.pred[cfg.exit] if cfg.exit_kind(p) == 'return' and
                    ('exit_from', p) in seen]
            hdrs = [loop_header(cfg, l) for l in loops]
            back = any((h, 0) in seen for h in hdrs if h is not None)
            found = found or (not rets and not back)
        chk.check(found, rule, f.name, '%s in two handlers end in an exception' % what, f.loc())
    # ... and each of the two comparisons relates a key of the own container with a key of the OTHER one (a key
    # compared with itself never mismatches)
    lvars = []
    for l in loops:
        if l.get('k') == 'CXXForRangeStmt':
            lv = children(l)[1]['decls'][0]['name']
            rng = children(l)[0]
            lvars.append((lv, 'other' if any(x.get('k') == 'DeclRefExpr' and x['ref'].get('sto') == 'param'
                                             for x in walk(rng)) else 'own'))
    chk.require(sorted(k for _, k in lvars) == ['other', 'own'], 'checkArgMix: loops over the own and the other '
                'container not recognised: %s' % lvars)
    kind_of = dict(lvars)
    n_cmp = 0
    for c in f.calls():
        is_eq = (c.get('k') == 'CXXOperatorCallExpr' and c.get('op') == '==' and
                 any('ArgumentKey' in (x.get('t') or '') for x in children(c)))
        is_mm = callee_is(c, 'ArgumentKey::mismatch')
        if not (is_eq or is_mm):
            continue
        ops = call_args(c) if is_eq else [object_of(c)] + call_args(c)
        sides = [{kind_of[x['ref'].get('name')] for x in walk(o) if x.get('k') == 'DeclRefExpr' and
                  x['ref'].get('name') in kind_of} for o in ops if o is not None]
        n_cmp += 1
        chk.check(len(sides) == 2 and sides[0] != sides[1] and all(len(s_) == 1 for s_ in sides), rule, f.name,
                  '%s relates a key of this container with a key of the other' % ('operator==' if is_eq else 'mismatch()'),
                  f.loc(c), 'operands refer to %s' % [sorted(s_) for s_ in sides])
    chk.require(n_cmp >= 2, 'checkArgMix: key comparisons found: %d' % n_cmp)


def r4_membership_flag(chk, prog):
    """Handlers created by Groups must know that they belong to a group (Handler::hfInGroup -> mUsedByGroup): only
    then do they run the cross-handler key check when an argument is added.  The flag word Groups keeps for new
    handlers contains hfInGroup from its constructor on, and no update of it may clear the bit - decided by
    evaluating every write of the flag word for all combinations of the flag bits it mentions (Engine B)."""
    from ..boolshape import Interp, NeedAtom, Unsupported
    import itertools
    en = prog.enums.get('celma::prog_args::Handler::HandleFlags')
    chk.require(en is not None, 'Handler::HandleFlags not found')
    vals = {e['name']: e['val'] for e in en['enumerators']}
    chk.require('hfInGroup' in vals, 'Handler::hfInGroup not found')
    bit = vals['hfInGroup']
    fns = [f for f in prog.functions if (f.classq or '') == 'celma::prog_args::Groups']
    # the constructor establishes the bit
    ctors = [f for f in fns if f.d.get('ctor')]
    est = 0
    for f in ctors:
        for ini in f.inits:
            if ini.get('name') == 'mHandlerFlags' and isinstance(ini.get('init'), dict):
                good = True
                for fs_ in (0, 0xffffffff, 0x5555, bit, 0):
                    env = {p['name']: fs_ for p in f.params}
                    it = Interp(f, env, opaque_ok=False)
                    try:
                        v = it.ev(ini['init'])
                    except (NeedAtom, Unsupported) as e:
                        raise AnalysisBroken('Groups constructor flag initialiser not interpretable: %s' % (e,))
                    good = good and bool(v & bit)
                est += 1
                chk.check(good, 'R4', f.name, 'the flag word for new handlers contains hfInGroup from the start', f.loc(),
                          'the initialiser does not set the bit for every argument value')
    chk.require(est >= 1, 'Groups constructor does not initialise mHandlerFlags')
    # every later write keeps the bit
    n_writes = 0
    for f in fns:
        if f.d.get('ctor') or f.body is None:
            continue
        for n in f.walk():
            if n.get('k') in ('BinaryOperator', 'CompoundAssignOperator') and (n.get('op') or '').endswith('=') and \
                    n.get('op') not in ('==', '!=', '<=', '>=') and field_name(children(n)[0]) == 'mHandlerFlags':
                n_writes += 1
                # bits mentioned by the statement and by the condition guarding it
                consts = {bit}
                for x in walk(n):
                    if isinstance(x.get('cv'), int) and x['cv'] > 0:
                        consts.add(x['cv'])
                bits = sorted({1 << i for c in consts for i in range(c.bit_length()) if c >> i & 1})[:12]
                bad = None
                guard = None
                cfg = f.cfg
                for bid, cond in cfg.cond_blocks():
                    if cond is not None and mentions_field(cond, 'mHandlerFlags') and \
                            cfg.guarded_by_edge(cfg.position(n), bid, 0):
                        guard = cond
                for combo in itertools.product((0, 1), repeat=len(bits)):
                    old = bit
                    for b, on in zip(bits, combo):
                        if on:
                            old |= b
                    env = {'this.mHandlerFlags': old}
                    for p in f.params:
                        env[p['name']] = 0
                    try:
                        if guard is not None and not Interp(f, dict(env), opaque_ok=False).ev(guard):
                            continue
                        it = Interp(f, dict(env), opaque_ok=False)
                        it.stmt(n)
                    except (NeedAtom, Unsupported) as e:
                        raise AnalysisBroken('update of mHandlerFlags not interpretable: %s' % (e,))
                    new = it.env.get('this.mHandlerFlags')
                    if not (new & bit):
                        bad = bad or (old, new)
                chk.check(bad is None, 'R4', f.name, 'an update of the flag word for new handlers keeps hfInGroup (later '
                          'handlers stay group members and cross-check their keys)', f.loc(n),
                          '' if bad is None else 'flags 0x%x become 0x%x' % bad)
    # the flag word is handed to every new handler
    mk = 0
    for f in fns:
        if f.short != 'internGetArgHandler':
            continue
        for c in f.calls():
            if 'make_shared' in (c.get('callee') or ''):
                args = call_args(c)
                ok = any(mentions_field(a, 'mHandlerFlags') and
                         not any(x.get('k') == 'BinaryOperator' and x.get('op') in ('&', '^', '-') for x in walk(a))
                         for a in args)
                mk += 1
                chk.check(ok, 'R4', f.name, 'a new member handler receives the complete flag word (or-ed with its own '
                          'flags)', f.loc(c))
    chk.require(n_writes >= 1 and mk >= 1, 'flag word writes %d, handler creations %d' % (n_writes, mk))


def r5_dispatch_table(chk, prog):
    """evaluating through a group equals one handler owning all arguments - decided per word sequence: the loop over
    the command line in Groups::evalArguments (helpers of Groups inlined) is evaluated abstractly (Engine B) for two
    member handlers over scripted word sequences, with the members replaced by the contract of
    Handler::evalSingleArgument (decided by C02/C05/C06 on the handler itself):
      a value word is consumed by a member whose value list is open, otherwise 'unknown';
      '!' is consumed and arms the inversion of that member's next identified argument;
      a key word closes the value list of every member that is asked (processArg writes mpLastArg on every path,
      R2), is handled by a member that has an exact / unique abbreviation match (result 'last' for a command
      argument), throws for an ambiguous abbreviation, else 'unknown'.
    Tables (expected = what a single handler does, C05 / C06 / Handler::iterateArguments):
      T1 a long key over two members x {nothing, exact, one abbreviation, several}: the exact key wins wherever it is
         defined, one abbreviation in total is used, none or several end in an exception;
      T2 a key word ends the open value list of EVERY member: a free value behind a key whose argument takes no
         further values is refused, whichever member owns the key and whichever member had the open list;
      T3 result 'last' ends the evaluation: no later word is offered to any member;
      T4 '!' inverts the next identified argument, whichever member owns it, and nothing stays armed;
      T5 a value word continues the open value list (of whichever member) before any positional argument is tried;
      T6 no value list stays open when the evaluation ends."""
    from ..boolshape import Interp, NeedAtom, Unsupported, Throw
    import itertools
    f = prog.one('celma::prog_args::Groups', 'evalArguments', pred=lambda f: len(f.params) == 2)
    outer = [l for l in loops_in(f) if l.get('k') == 'ForStmt' and
             any(True for c in walk(l) if c.get('k') in CALL_KINDS and callee_is(c, 'Handler::evalSingleArgument'))]
    chk.require(len(outer) == 1, 'Groups::evalArguments: loop over the command line not found')
    loop = outer[0]
    en = prog.enums.get('celma::prog_args::Handler::ArgResult')
    chk.require(en is not None, 'enum Handler::ArgResult not found')
    res_vals = {e['name']: e['val'] for e in en['enumerators']}
    et = [e for q, e in prog.enums.items() if q.endswith('ArgListElement::Type')]
    chk.require(et, 'enum ArgListElement::Type not found')
    type_vals = {e['name']: e['val'] for e in et[0]['enumerators']}
    members = (100, 200)

    def evaluate(words, knows, open0=(False, False), command=False, positional=(), multi=()):
        """words: list of ('long', id) | ('short', id) | ('value',) | ('!',);  knows[m][id] = 'exact'|'abbrev'|'ambiguous'.
        returns (outcome, events, final state)"""
        st = {'open': dict(zip(members, open0)), 'inv': {m: False for m in members}}
        events = []

        def member_in(it, expr):
            for x in walk(expr):
                if x.get('k') == 'DeclRefExpr' and x.get('ref', {}).get('name') in it.locals:
                    v = it.locals[x['ref']['name']]
                    if v in members:
                        return v
            for x in walk(expr):
                if x.get('k') in CALL_KINDS and (x.get('callee') or '').split('::')[-1] in ('front', 'back') and \
                        mentions_field(x, 'mArgGroups'):
                    return members[0] if (x.get('callee') or '').endswith('front') else members[-1]
            raise Unsupported('member handler not identifiable at line %s' % expr.get('l'))

        cur = {'i': 0}

        def word_at(it):
            i = cur['i']
            if not isinstance(i, int) or not 0 <= i < len(words):
                raise Unsupported('the current word is read outside the command line (index %r)' % (i,))
            return words[i]

        def cb_eval(it, call):
            m = member_in(it, children(call)[0])
            w = word_at(it)
            if w[0] == 'value':
                if st['open'][m]:
                    events.append(('value', m, 'list'))
                    return res_vals['consumed']
                if m in positional:
                    # (Handler::evalSingleArgument: the open value list first, then the positional argument)
                    events.append(('value', m, 'positional'))
                    return res_vals['consumed']
                return res_vals['unknown']
            if w[0] == '!':
                st['inv'][m] = True
                events.append(('!', m))
                return res_vals['consumed']
            st['open'][m] = False
            how = knows.get(m, {}).get(w[1])
            if how is None:
                return res_vals['unknown']
            if how == 'ambiguous':
                raise Throw('ambiguous')
            events.append(('key', w[1], m, how, st['inv'][m]))
            st['inv'][m] = False
            if w[1] in multi:
                st['open'][m] = True        # the argument takes several values: its list stays open
            return res_vals['last'] if command else res_vals['consumed']

        def lookup(it, call, exact_only):
            m = member_in(it, children(call)[0])
            if not mentions_field(children(call)[0], 'mArguments'):
                return 0
            w = word_at(it)
            how = knows.get(m, {}).get(w[1]) if w[0] in ('long', 'short') else None
            if how == 'ambiguous' and not exact_only:
                raise Throw('ambiguous')
            if how == 'exact':
                return m + 1
            return m + 2 if (how == 'abbrev' and not exact_only) else 0

        def cb_end_list(it, call):
            st['open'][member_in(it, children(call)[0])] = False
            return 0

        def cb_store(it, lhs, v):
            l0 = strip_all_casts(lhs)
            if l0.get('k') == 'MemberExpr' and l0.get('ref', {}).get('name') == 'mInverted':
                st['inv'][member_in(it, l0)] = bool(v)
                return True
            if l0.get('k') == 'MemberExpr' and l0.get('ref', {}).get('name') == 'mpLastArg' and not v:
                st['open'][member_in(it, l0)] = False
                return True
            return False

        def cb_atom(it, key):
            if key.endswith('.mElementType'):
                w = word_at(it)
                return type_vals[{'long': 'stringArg', 'short': 'singleCharArg', 'value': 'value', '!': 'control'}[w[0]]]
            if key.endswith('.mArgString') or key.endswith('.mValue'):
                return 7
            if key.endswith('.mArgChar'):
                return ord('!') if word_at(it)[0] == '!' else ord('k')
            if key.endswith('.mInverted'):
                return 0
            if key in ('usage_printed', 'this.mContinueAfterUsage', 'this.mEvaluating'):
                return 0
            return None

        def cb_inc(it, call):
            tgt = children(call)[1] if call.get('k') == 'CXXOperatorCallExpr' else object_of(call)
            name = strip_all_casts(tgt).get('ref', {}).get('name')
            it.set_atom(name, it.atom(name, 'ord') + 1)
            cur['i'] = it.atom(name, 'ord')
            return 0
        cbs = {'evalSingleArgument': cb_eval, 'findArg': lambda it, c: lookup(it, c, False),
               'findExactArg': lambda it, c: lookup(it, c, True), 'get': lambda it, c: member_in(it, children(c)[0]),
               'endValueList': cb_end_list, 'valueListOpen': lambda it, c: int(st['open'][member_in(it, children(c)[0])]),
               'usagePrinted': lambda it, c: 0, 'ArgumentKey': lambda it, c: 7,
               'key': lambda it, c: 7, 'begin': lambda it, c: 0, 'end': lambda it, c: len(words),
               'front': lambda it, c: members[0], 'back': lambda it, c: members[-1],
               'operator++': cb_inc, '<range>': lambda it, rng: list(members), '<atom>': cb_atom, '<store>': cb_store,
               '<loops>': True}
        it = Interp(f, {}, callbacks=cbs, prog=prog)
        # scalar locals of the function that are initialised with a literal in front of the loop (flags, counters)
        for stmt in children(f.body):
            if stmt is loop:
                break
            if stmt.get('k') == 'DeclStmt' and all(
                    isinstance(d.get('init'), dict) and strip_all_casts(d['init']).get('k') in (
                        'CXXBoolLiteralExpr', 'IntegerLiteral') for d in stmt.get('decls', [])):
                it.stmt(stmt)
        try:
            out = it.run(loop)
        except (NeedAtom, Unsupported) as e:
            raise AnalysisBroken('Groups::evalArguments: the word loop is not interpretable for %s: %s' % (
                words, getattr(e, 'key', e)))
        return ('throw' if out[0] == 'throw' else 'done'), events, st

    def mem(m):
        return 'member %d' % (m // 100)
    n = 0
    # ---- T1
    STATES = ('none', 'exact', 'abbrev', 'ambiguous')
    for combo in itertools.product(STATES, repeat=2):
        if combo.count('exact') > 1:
            continue
        knows = {m: ({1: s_} if s_ != 'none' else {}) for m, s_ in zip(members, combo)}
        out, ev, _ = evaluate([('long', 1)], knows)
        keys = [e for e in ev if e[0] == 'key']
        got = ('throw',) if out == 'throw' else tuple((e[2], e[3]) for e in keys)
        exact = [m for m, s_ in zip(members, combo) if s_ == 'exact']
        nabbr = sum({'abbrev': 1, 'ambiguous': 2}.get(s_, 0) for s_ in combo)
        if exact:
            want = ((exact[0], 'exact'),)
        elif nabbr == 1:
            want = (([m for m, s_ in zip(members, combo) if s_ == 'abbrev'][0], 'abbrev'),)
        else:
            want = ('throw',)

        def show(o):
            if o == ('throw',):
                return 'an exception'
            return ' and '.join('%s handles it (%s match)' % (mem(m), 'exact' if k == 'exact' else 'abbreviation')
                                for m, k in o) or 'the word is silently dropped'
        n += 1
        chk.check(got == want, 'R5', f.name, 'long key over two members [member 1: %s, member 2: %s]: %s' % (
            combo[0], combo[1], show(want)), f.loc(loop), 'Groups::evalArguments: %s' % show(got))
    # ---- T2
    for owner, kind, opened in itertools.product(members, ('long', 'short'), members):
        knows = {owner: {1: 'exact'}}
        out, ev, _ = evaluate([(kind, 1), ('value',)], knows, open0=tuple(m == opened for m in members))
        taken = [e for e in ev if e[0] == 'value']
        n += 1
        chk.check(out == 'throw' and not taken, 'R5', f.name, 'a %s key of %s ends the open value list of %s: the free '
                  'value behind it is refused (as by a single handler)' % (kind, mem(owner), mem(opened)), f.loc(loop),
                  'Groups::evalArguments: the value is %s' % ('consumed by ' + mem(taken[0][1]) if taken else
                                                              'neither consumed nor refused'))
    # ---- T3
    for owner in members:
        other = [m for m in members if m != owner][0]
        knows = {owner: {1: 'exact'}, other: {2: 'exact'}}
        out, ev, _ = evaluate([('short', 1), ('short', 2)], knows, command=True)
        later = [e for e in ev if e[0] == 'key' and e[1] == 2]
        n += 1
        chk.check(out == 'done' and not later and any(e[0] == 'key' and e[1] == 1 for e in ev), 'R5', f.name,
                  "result 'last' of %s ends the evaluation: the rest of the line belongs to the command argument"
                  % mem(owner), f.loc(loop), 'Groups::evalArguments: %s' % (
                      'the following word is evaluated as well' if later else 'ends with an exception'
                      if out == 'throw' else 'the command argument is not handled'))
    # ---- T4
    for owner, kind in itertools.product(members, ('short', 'long')):
        knows = {owner: {1: 'exact'}}
        out, ev, st = evaluate([('!',), (kind, 1)], knows)
        keys = [e for e in ev if e[0] == 'key']
        ok = out == 'done' and len(keys) == 1 and keys[0][2] == owner and keys[0][4] is True and \
            not any(st['inv'].values())
        n += 1
        chk.check(ok, 'R5', f.name, "'!' inverts the next argument (%s key of %s) and nothing stays armed" % (
            kind, mem(owner)), f.loc(loop), 'Groups::evalArguments: %s' % (
                'an exception' if out == 'throw' else 'the argument is handled %s; inversion still armed in: %s' % (
                    'inverted' if keys and keys[0][4] else 'NOT inverted',
                    [mem(m) for m, v in st['inv'].items() if v] or 'no member')))
    # ---- T5: a value word belongs to the argument whose value list is open - in whichever member - before the
    # positional argument of any member is tried (Handler::evalSingleArgument asks mpLastArg first)
    for opened, pos_m in itertools.product(members, members):
        out, ev, _ = evaluate([('value',)], {}, open0=tuple(m == opened for m in members), positional=(pos_m,))
        taken = [e for e in ev if e[0] == 'value']
        ok = out == 'done' and len(taken) == 1 and taken[0][1:] == (opened, 'list')
        n += 1
        chk.check(ok, 'R5', f.name, 'a value word continues the open value list of %s, not the positional argument of '
                  '%s' % (mem(opened), mem(pos_m)), f.loc(loop), 'Groups::evalArguments: %s' % (
                      'an exception' if out == 'throw' else ', '.join(
                          'stored by %s as %s' % (mem(e[1]), 'positional value' if e[2] == 'positional' else
                                                  'list value') for e in taken) or 'not stored'))
    for pos_m in members:
        out, ev, _ = evaluate([('value',)], {}, positional=(pos_m,))
        taken = [e for e in ev if e[0] == 'value']
        n += 1
        chk.check(out == 'done' and len(taken) == 1 and taken[0][1:] == (pos_m, 'positional'), 'R5', f.name,
                  'without an open value list a value word goes to the positional argument of %s' % mem(pos_m),
                  f.loc(loop), 'Groups::evalArguments: %s' % ('an exception' if out == 'throw' else taken))
    # ---- T6: no value list stays open when the evaluation ends (Handler::evalArguments resets mpLastArg at its
    # exit): the next evaluation through the group starts like the first one
    resets = []
    for c in f.calls():
        if callee_is(c, 'endValueList') and not any(c is x for x in walk(loop)):
            resets.append(('after the word loop', c))
    for ds in (x for x in f.walk() if x.get('k') == 'DeclStmt' and not any(x is y for y in walk(loop))):
        for d in ds.get('decls', []):
            t = (d.get('t') or '').replace('const ', '').strip()
            for g in prog.functions:
                if g.short.startswith('~') and g.body is not None and (g.classq or '') and t.endswith(
                        (g.classq or '').split('::')[-1]) and any(callee_is(c, 'endValueList') for c in g.calls()):
                    # (clang's CFG re-synthesises a DeclStmt that also defines the class: take the initialiser)
                    resets.append(('scope guard %s' % d.get('name'),
                                   ds if f.cfg.position(ds) is not None or not isinstance(d.get('init'), dict) else d['init']))
    ok = False
    detail = 'no member value list is closed outside the word loop: an argument that takes several values keeps its ' \
             'list open, and the first value words of the next evaluation are appended to it'
    for how, node in resets:
        if how.startswith('scope guard'):
            # the guard lives from its declaration to every exit of the function, exceptional ones included; it must be
            # set up before the first word is evaluated
            first_eval = [c for c in walk(loop) if c.get('k') in CALL_KINDS and callee_is(c, 'Handler::evalSingleArgument')]
            ok = ok or bool(first_eval) and f.cfg.node_dominates(node, first_eval[0])
            if not ok:
                detail = 'the scope guard is not set up before the first word is evaluated'
        else:
            # a reset on the normal path only: an evaluation that ends with an exception (a value that fails its
            # conversion or check) leaves the list open - Handler::evalArguments() resets at EVERY exit
            in_catch = any(a.get('k') == 'CXXCatchStmt' for a in f.ancestors(node))
            if not ok and not in_catch:
                detail = 'the value lists are closed on the normal path only: after an evaluation that ends with an ' \
                         'exception the list of the last argument is still open'
    n += 1
    chk.check(ok, 'R5', f.name, 'no value list of a member stays open when the evaluation ends', f.loc(), '' if ok else detail)
    chk.require(n >= 32, 'dispatch combinations evaluated: %d' % n)


def r6_value_list_predicate(chk, prog):
    """Groups::evalArguments() asks every member valueListOpen() to find the owner of a free value; the member then
    decides in evalSingleArgument() whether the value continues its last argument.  Both must be the same predicate
    (same queries of mpLastArg): otherwise Groups hands a value to a member that treats it as positional / unknown
    although a single handler would have stored it in the positional argument."""
    vo = prog.one('celma::prog_args::Handler', 'valueListOpen')
    ev = prog.one('celma::prog_args::Handler', 'evalSingleArgument')

    def queries(expr):
        return sorted({(c.get('callee') or '').split('(')[0].split('::')[-1] for c in walk(expr)
                       if c.get('k') in CALL_KINDS and field_name(object_of(c)) == 'mpLastArg'})

    def null_tested(expr):
        return any(x.get('k') == 'BinaryOperator' and x.get('op') in ('!=', '==') and
                   any(field_name(k) == 'mpLastArg' for k in children(x)) for x in walk(expr))

    chk.require(vo.body is not None, 'valueListOpen: body not extracted')
    mine = queries(vo.body)
    cfg = ev.cfg
    theirs = None
    nulls = False
    for bid, cond in cfg.cond_blocks():
        if cond is None or not mentions_field(cond, 'mpLastArg'):
            continue
        # `a && b` is two condition blocks: collect every condition whose true edge guards the assignment
        direct = [c for c in ev.calls_to('TypedArgBase::assignValue')
                  if field_name(object_of(c)) == 'mpLastArg' and cfg.guarded_by_edge(cfg.position(c), bid, 0)]
        if direct:
            theirs = sorted(set(theirs or []) | set(queries(cond)))
            nulls = nulls or null_tested(cond)
    if theirs is not None:
        chk.check(nulls and null_tested(vo.body), 'R6', vo.name,
                  'both predicates test mpLastArg against null', vo.loc())
    chk.require(theirs is not None, 'evalSingleArgument: branch that assigns a further value to mpLastArg not found')
    chk.check(mine == theirs, 'R6', vo.name,
              'valueListOpen() is the predicate evalSingleArgument() uses to continue a value list', vo.loc(),
              'valueListOpen asks %s, evalSingleArgument asks %s' % (mine, theirs))


def run(chk):
    prog, units = rules.prog_args_program()
    chk.units = units
    chk.explanation = (
        'Sibling agreement between Groups::evalArguments and Handler::evalArguments: the four end-of-evaluation '
        'obligations must be run for every member (per-iteration must-pass-through on the member loop, closed under '
        'wrapper functions), dispatch-loop shape (unknown -> next member -> exception), and must-pass-through of '
        'the cross-handler key check on every path that adds an argument. Not decided: equality of stored values '
        'between the two evaluation paths as a relation over all partitions.')
    chk.assumptions = ['identification inside a member uses Handler::processArg/handleIdentifiedArg, whose rules '
                       'are decided by C02']
    chk.rule('R1', 'end checks of stand-alone evaluation are run for every member handler', 4)
    chk.rule('R2', 'dispatch to the first member that knows the element; unknown -> exception', 4)
    chk.rule('R3', 'cross-handler key conflict detection on every add path', 10)
    r1(chk, prog)
    r2(chk, prog)
    # unknown -> throw (same rule as C02-R5, instance Groups::evalArguments)
    sub = type(chk)(chk.pid, chk.tier)
    sub._known = []
    r5_unknown(sub, prog)
    for o in sub.obligations:
        if 'Groups' in o['function']:
            chk.check(o['status'] == 'held', 'R2', o['function'], o['what'], o['where'], o.get('detail', ''))
    r3(chk, prog)
    chk.rule('R4', 'handlers created by Groups are marked as group members (hfInGroup is established and never cleared)', 3)
    r4_membership_flag(chk, prog)
    chk.rule('R5', 'per-word agreement with a single handler: owner of a long key, keys end every open value list, \'last\' ends the evaluation, \'!\' inverts the next argument', 25)
    r5_dispatch_table(chk, prog)
    chk.rule('R6', 'Groups and member handler agree on when a value list is open', 2)
    r6_value_list_predicate(chk, prog)
