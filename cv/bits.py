"""Bit-level content model for std::vector<bool> on top of Engine C (bounds.py).

A vector<bool> object `v` is a region `v#bits` whose size is the vector's size.  Element reads yield Bit values
(expressions over bits, bounds.Bit), element writes / resize / flip / assignment append entries to the write log of
the state, element-wise loops are summarised into one 'map' entry (after checking that an iteration does not read
what an earlier iteration of the same loop wrote), and the value of a symbolic position after any sequence of such
entries is resolved backwards through the log into a resolved bit expression:

   ('c', 0|1) | ('i', region, offset)  initial bit | ('v', Lin)  a boolean program value | ('u',)  unknown
   ('not', x) | ('and'|'or'|'xor', x, y)
"""
from .bounds import Bit, Ptr, Obj, Obligation, UNKNOWN, _ev_all, btype, m_vector_method, VECTOR_MAX_SIZE
from .lin import Lin, lin, ge, le, lt, gt, eq, entails, feasible, TooBig
from .facts import children, walk, strip_casts, strip_all_casts, CALL_KINDS


def region_of(name):
    return name + '#bits'


def vec_size(eng, st, name):
    key = (name, 'size')
    size = st.fields.get(key)
    if size is None:
        owner = name.rsplit('.', 1)[0]
        if (owner, '$new') in st.fields:
            size = lin(0)
        else:
            size = eng.named('%s.size()' % name, st, 'unsigned long')
            st.assume(le(size, VECTOR_MAX_SIZE))
        st.fields[key] = size
    st.regions[region_of(name)] = size
    return size


def sat(cons):
    try:
        return feasible(cons)
    except TooBig:
        return True


# ------------------------------------------------------------------ models

def m_vector_bool(eng, n, st, func, want):
    callee = n.get('callee', '')
    short = callee.split('::')[-1]
    objn, args = eng.args_of(n)
    if n['k'] in ('CXXConstructExpr', 'CXXTemporaryObjectExpr'):
        # vector<bool>() | ( n) | ( n, value) | ( other): a new object with its own bit region
        real = [a for a in args if not a.get('defarg')]
        out = []
        for vals, s1 in _ev_all(eng, real, st, func):
            name = 'vec@%s#%d' % (n['id'], next(eng.counter))
            region = region_of(name)
            if not vals:
                size = lin(0)
            elif len(vals) == 1 and isinstance(vals[0], Obj):
                size = vec_size(eng, s1, vals[0].name)
                s1.regions[region] = size
                eng.log_write(s1, ('copy', Ptr(region, 0), Ptr(region_of(vals[0].name), 0), size))
            elif isinstance(vals[0], Lin):
                size = vals[0]
                s1.regions[region] = size
                eng.log_write(s1, ('fill', Ptr(region, 0), vals[1] if len(vals) > 1 else lin(0), size))
            else:
                return None
            s1.fields[(name, 'size')] = size
            s1.regions[region] = size
            out.append((Obj(name, 'std::vector<bool>'), s1))
        return out
    if objn is None:
        return m_vector_method(eng, n, st, func, want)
    if short == 'operator[]':
        out = []
        for ov, s0 in eng.ev(objn, st, func):
            if not isinstance(ov, Obj):
                return None
            for (idx,), s1 in _ev_all(eng, args[:1], s0, func):
                size = vec_size(eng, s1, ov.name)
                if isinstance(idx, Lin):
                    eng.oblige(s1, [ge(idx, 0), lt(idx, size)], 'bounds',
                               'element access %s[i] is inside the vector' % ov.name.split('.')[-1], n, func,
                               'index %r, size %r;' % (idx, size))
                    if btype(n.get('t')) == 'bool':
                        out.append((Bit(('r', region_of(ov.name), idx, len(s1.wlog))), s1))
                    else:
                        out.append((('bitref', region_of(ov.name), idx), s1))
                else:
                    eng.obligations.append(Obligation(eng.root, 'bounds', 'vector index is tracked', False,
                                                      func.loc(n), ''))
                    out.append((UNKNOWN, s1))
        return out
    if short == 'resize':
        out = []
        for ov, s0 in eng.ev(objn, st, func):
            if not isinstance(ov, Obj):
                return None
            for vals, s1 in _ev_all(eng, [a for a in args if not a.get('defarg')], s0, func):
                old = vec_size(eng, s1, ov.name)
                nv = vals[0] if vals and isinstance(vals[0], Lin) else None
                if vals and isinstance(vals[0], tuple):
                    nv = eng.float_to_int(s1, vals[0], 'unsigned long')
                if nv is None:
                    nv = eng.fresh('size', s1, 'unsigned long')
                s1.assume(le(nv, VECTOR_MAX_SIZE))
                if not s1.ok():
                    continue
                fill = vals[1] if len(vals) > 1 else lin(0)
                for grows, s2 in eng.compare('>', nv, old, s1, n, func):
                    if grows:
                        eng.log_write(s2, ('fill', Ptr(region_of(ov.name), old), fill, nv - old))
                    s2.fields[(ov.name, 'size')] = nv
                    s2.regions[region_of(ov.name)] = nv
                    out.append((UNKNOWN, s2))
        return out
    if short == 'flip' and not args:
        out = []
        for ov, s1 in eng.ev(objn, st, func):
            if not isinstance(ov, Obj):
                return None
            vec_size(eng, s1, ov.name)
            eng.log_write(s1, ('flipall', Ptr(region_of(ov.name), 0)))
            out.append((UNKNOWN, s1))
        return out
    if short == 'clear':
        out = []
        for ov, s1 in eng.ev(objn, st, func):
            if not isinstance(ov, Obj):
                return None
            s1.fields[(ov.name, 'size')] = lin(0)
            s1.regions[region_of(ov.name)] = lin(0)
            out.append((UNKNOWN, s1))
        return out
    if short == 'operator=' and len(args) == 1:
        out = []
        for ov, s0 in eng.ev(objn, st, func):
            if not isinstance(ov, Obj):
                return None
            for (src,), s1 in _ev_all(eng, args[:1], s0, func):
                if not isinstance(src, Obj):
                    return None
                osize = vec_size(eng, s1, src.name)
                vec_size(eng, s1, ov.name)
                eng.log_write(s1, ('copy', Ptr(region_of(ov.name), 0), Ptr(region_of(src.name), 0), osize))
                s1.fields[(ov.name, 'size')] = osize
                s1.regions[region_of(ov.name)] = osize
                out.append((ov, s1))
        return out
    r = m_vector_method(eng, n, st, func, want)
    return r


def as_bit(eng, st, v):
    """the value read through a _Bit_reference / a bool value as Bit"""
    if isinstance(v, tuple) and v and v[0] == 'bitref':
        return Bit(('r', v[1], v[2], len(st.wlog)))
    if isinstance(v, Bit):
        return v
    if isinstance(v, Lin):
        b = Bit.of(v)
        return b if b is not None else Bit(('v', v))
    return None


def m_bit_reference(eng, n, st, func, want):
    callee = n.get('callee', '')
    short = callee.split('::')[-1]
    objn, args = eng.args_of(n)
    if objn is None:
        return None
    out = []
    for ov, s0 in eng.ev(objn, st, func):
        if not (isinstance(ov, tuple) and ov and ov[0] == 'bitref'):
            return None
        if short == 'operator bool':
            out.append((as_bit(eng, s0, ov), s0))
        elif short == 'operator=':
            for (v,), s1 in _ev_all(eng, args[:1], s0, func):
                b = as_bit(eng, s1, v)
                eng.log_write(s1, ('put', Ptr(ov[1], ov[2]), b if b is not None else UNKNOWN))
                out.append((ov, s1))
        elif short == 'flip':
            b = as_bit(eng, s0, ov)
            eng.log_write(s0, ('put', Ptr(ov[1], ov[2]), Bit(('not', b.e))))
            out.append((UNKNOWN, s0))
        else:
            return None
    return out


MODELS = {'std::vector<bool, std::allocator<bool>>::*': m_vector_bool, 'std::vector<bool>::*': m_vector_bool,
          'std::_Bit_reference::*': m_bit_reference}


# ------------------------------------------------------------------ loop summary

def subst_expr(e, name, val):
    k = e[0]
    if k == 'r':
        return ('r', e[1], e[2].subst(name, val), e[3])
    if k in ('c', 'i', 'u'):
        return e
    if k == 'v':
        return ('v', e[1].subst(name, val))
    if k == 'not':
        return ('not', subst_expr(e[1], name, val))
    return (k, subst_expr(e[1], name, val), subst_expr(e[2], name, val))


def leaves(e):
    if e[0] == 'r':
        yield e
    elif e[0] == 'not':
        yield from leaves(e[1])
    elif e[0] in ('and', 'or', 'xor'):
        yield from leaves(e[1])
        yield from leaves(e[2])


def loop_summary(eng, n, states, func):
    """tries to describe  for ( i = a; i <op> b; ++i / --i) region[ i + c] = <bit expression of i>;  by one 'map'
    log entry per incoming state.  Returns True when every incoming state was summarised."""
    if n.get('k') == 'CXXForRangeStmt':
        return range_for_summary(eng, n, states, func)
    if n.get('k') != 'ForStmt':
        return False
    init, _cv, cond, inc, body = (n.get('c', []) + [None] * 5)[:5]
    if cond is None or inc is None or body is None:
        return False
    c0 = strip_all_casts(cond)
    if c0.get('k') != 'BinaryOperator' or c0.get('op') not in ('<', '<=', '>', '>='):
        return False
    vars_, fields, havoc_this, incs, decs = eng.modified_in([cond, inc], func)
    if len(vars_) != 1 or fields:
        return False
    var = sorted(vars_)[0]
    # a bound such as std::min( a, b) splits a state: split the incoming states first, so that every state has
    # one definite bound
    from .rules import mentions_var
    for side in children(c0):
        if not mentions_var(side, var) and any(x.get('k') in CALL_KINDS for x in walk(side)):
            split = []
            for s_in in states:
                if s_in.status != 'normal':
                    split.append(s_in)
                    continue
                mk = len(eng.obligations)
                rs = eng.ev(side, s_in, func)
                del eng.obligations[mk:]
                split.extend(s2 for _, s2 in rs)
            states[:] = split
    # an initialiser with a conditional expression splits the state as well
    if isinstance(init, dict) and init.get('k') == 'DeclStmt' and any(
            x.get('k') in ('ConditionalOperator',) or x.get('k') in CALL_KINDS for d in init.get('decls', [])
            if isinstance(d.get('init'), dict) for x in walk(d['init'])):
        split = []
        for s_in in states:
            if s_in.status != 'normal':
                split.append(s_in)
                continue
            mk = len(eng.obligations)
            rs = []
            for d in init['decls']:
                if isinstance(d.get('init'), dict):
                    rs = eng.ev(d['init'], s_in.copy(), func)
            del eng.obligations[mk:]
            if len(rs) <= 1:
                split.append(s_in)
                continue
            for _, s2 in rs:
                c = s_in.copy()
                c.cons = list(s2.cons)
                c.trail = list(s2.trail)
                split.append(c)
        states[:] = split
    entries = []
    mark = len(eng.obligations)
    depth = eng.loop_depth
    eng.loop_depth = 0          # the writes of the symbolic iteration are recorded as they are
    try:
        for s_in in states:
            if s_in.status != 'normal':
                continue
            s0 = s_in.copy()
            cur = [s for s in eng.stmt(init, [s0], func) if s.status == 'normal'] if init is not None else [s0]
            if len(cur) != 1:
                return False
            s0 = cur[0]
            h0 = s0.vars.get(var)
            if not isinstance(h0, Lin):
                return False
            head = s0.copy()
            hname = 'iter@%s#%d' % (n['id'], next(eng.counter))
            h = Lin.sym(hname)
            eng.type_range(head, h, eng.var_type(func, var, n) or 'unsigned long')
            # positions are below the size of a vector (<= 2^62): an index that is still inside the loop never
            # comes near the wrap-around of its type
            head.assume(le(h, (1 << 62) + 1))
            head.vars[var] = h
            # bounds from the condition:  (i + k) <op> R
            lhs, rhs = children(c0)
            lv = eng.ev(lhs, head.copy(), func)
            rv = eng.ev(rhs, head.copy(), func)
            if len(lv) != 1 or len(rv) != 1 or not isinstance(lv[0][0], Lin) or not isinstance(rv[0][0], Lin):
                return False
            L, R = lv[0][0], rv[0][0]
            op = c0['op']
            if hname in [str(x) for x in R.syms()]:
                if hname in [str(x) for x in L.syms()]:
                    return False
                L, R = R, L
                op = {'<': '>', '<=': '>=', '>': '<', '>=': '<='}[op]
            k = L - h
            if hname in [str(x) for x in k.syms()]:
                return False
            # the counter only moves away from its start value
            pre = [s2 for _, s2 in eng.ev(inc, head.copy(), func)]
            if len(pre) == 1 and isinstance(pre[0].vars.get(var), Lin):
                hp2 = pre[0].vars[var]
                if entails(pre[0].cons, ge(hp2, h + 1)) and entails(pre[0].cons, le(hp2, h + 1)):
                    head.assume(ge(h, h0))
                elif entails(pre[0].cons, ge(hp2, h - 1)) and entails(pre[0].cons, le(hp2, h - 1)):
                    head.assume(le(h, h0))
            # one iteration
            trues = [s for t, s in eng.cond(cond, head.copy(), func) if t]
            if not trues:
                # no iteration is possible from this state (the counter starts at or beyond its bound): the loop
                # writes nothing
                entries.append((s_in, None))
                continue
            if len(trues) != 1:
                return False
            s1 = trues[0]
            m = len(s1.wlog)
            rs = eng.stmt(body, [s1], func)
            if len(rs) != 1 or rs[0].status != 'normal':
                return False
            r = rs[0]
            new = r.wlog[m:]
            if len(new) != 1 or new[0][0] != 'put' or not isinstance(new[0][1], Ptr):
                return False
            dst, val = new[0][1], new[0][2]
            b = val if isinstance(val, Bit) else Bit.of(val) if isinstance(val, Lin) else None
            if b is None and isinstance(val, Lin):
                b = Bit(('v', val))
            if b is None:
                return False
            c = dst.off - h
            if hname in [str(x) for x in c.syms()]:
                return False
            after = [s2 for _, s2 in eng.ev(inc, r, func)]
            if len(after) != 1:
                return False
            h2 = after[0].vars.get(var)
            if isinstance(h2, Lin) and entails(after[0].cons, ge(h2, h + 1)) and entails(after[0].cons, le(h2, h + 1)):
                direction = 'up'
            elif isinstance(h2, Lin) and entails(after[0].cons, ge(h2, h - 1)) and \
                    entails(after[0].cons, le(h2, h - 1)):
                direction = 'down'
            else:
                return False
            if direction == 'up' and op in ('<', '<='):
                lo, hi = h0, (R - k) if op == '<' else (R - k + 1)
            elif direction == 'down' and op in ('>', '>='):
                lo, hi = ((R - k + 1) if op == '>' else (R - k)), h0 + 1
            else:
                return False
            # an iteration must not read what an earlier iteration of this loop wrote
            for lf in leaves(b.e):
                if lf[1] != dst.region:
                    continue
                hp = eng.fresh('other_iter', s1, 'unsigned long')
                earlier = [ge(hp, lo), lt(hp, h)] if direction == 'up' else [gt(hp, h), lt(hp, hi)]
                if sat(s1.cons + [ge(h, lo), lt(h, hi)] + earlier + eq(hp + c, lf[2])):
                    # the loop reads what it has written itself: its result is not a function of the content
                    # before the loop in the simple sense - remember that for the report
                    eng.notes.append('loop at line %s reads positions of %s that an earlier iteration has written' % (
                        n.get('l'), dst.region))
                    dep = getattr(eng, 'dependent_loops', set())
                    dep.add(dst.region.split('#')[0].split('@')[0])
                    eng.dependent_loops = dep
                    return False
            entries.append((s_in, ('map', Ptr(dst.region, lo + c), hi - lo, c, hname, b.e, direction)))
    finally:
        eng.loop_depth = depth
        del eng.obligations[mark:]
    for s_in, e in entries:
        if e is not None:
            s_in.wlog.append(e)
    return bool(entries)


def range_for_summary(eng, n, states, func):
    """for (auto flag : vec) flag = <bit expression>;  -  the loop variable is the proxy of element h for an arbitrary
    h in [0, size): one 'map' entry over the whole vector"""
    kids = n.get('c', [])
    if len(kids) < 3 or not isinstance(kids[1], dict) or not kids[1].get('decls'):
        return False
    rng, decl, body = kids[0], kids[1], kids[2]
    lv = decl['decls'][0]['name']
    ltype = btype((decl['decls'][0].get('t') or '').rstrip('&').strip())
    if 'std::_Bit_reference' not in ltype:
        return False
    entries = []
    mark = len(eng.obligations)
    depth = eng.loop_depth
    eng.loop_depth = 0
    try:
        for s_in in states:
            if s_in.status != 'normal':
                continue
            rv = eng.ev(rng, s_in.copy(), func)
            if len(rv) != 1 or not isinstance(rv[0][0], Obj):
                return False
            vec, s0 = rv[0]
            region = region_of(vec.name)
            size = vec_size(eng, s0, vec.name)
            hname = 'iter@%s#%d' % (n['id'], next(eng.counter))
            h = Lin.sym(hname)
            eng.type_range(s0, h, 'unsigned long')
            s0.assume(ge(h, 0), lt(h, size))
            if not s0.ok():
                # empty vector: no iteration, nothing written
                entries.append((s_in, None))
                continue
            s0.vars[lv] = ('bitref', region, h)
            m = len(s0.wlog)
            rs = eng.stmt(body, [s0], func)
            if len(rs) != 1 or rs[0].status != 'normal':
                return False
            new = rs[0].wlog[m:]
            if len(new) != 1 or new[0][0] != 'put' or not isinstance(new[0][1], Ptr) or new[0][1].region != region:
                return False
            dst, val = new[0][1], new[0][2]
            b = val if isinstance(val, Bit) else Bit.of(val) if isinstance(val, Lin) else None
            if b is None and isinstance(val, Lin):
                b = Bit(('v', val))
            if b is None:
                return False
            c = dst.off - h
            if hname in [str(x) for x in c.syms()] or not (entails(s0.cons, ge(c, 0)) and entails(s0.cons, le(c, 0))):
                return False
            for lf in leaves(b.e):
                if lf[1] == region and not (entails(rs[0].cons, ge(lf[2], h)) and entails(rs[0].cons, le(lf[2], h))):
                    return False        # reads another element of the vector it writes
            entries.append((s_in, ('map', Ptr(region, lin(0)), size, lin(0), hname, b.e, 'up')))
    finally:
        eng.loop_depth = depth
        del eng.obligations[mark:]
    for s_in, e in entries:
        if e is not None:
            s_in.wlog.append(e)
    return bool(entries)


# ------------------------------------------------------------------ resolution

def simplify(e):
    k = e[0]
    if k in ('c', 'i', 'v', 'u'):
        return e
    if k == 'not':
        x = simplify(e[1])
        if x[0] == 'c':
            return ('c', 1 - x[1])
        if x[0] == 'not':
            return x[1]
        return ('not', x)
    a, b = simplify(e[1]), simplify(e[2])
    for x, y in ((a, b), (b, a)):
        if x[0] == 'c':
            if k == 'and':
                return y if x[1] == 1 else ('c', 0)
            if k == 'or':
                return y if x[1] == 0 else ('c', 1)
            if k == 'xor':
                return y if x[1] == 0 else simplify(('not', y))
    return (k, a, b)


def resolve_expr(eng, st, e, upto):
    """Bit expression -> list of (resolved expression, state)"""
    k = e[0]
    if k == 'c':
        return [(e, st)]
    if k == 'v':
        return [(e, st)]
    if k == 'r':
        return resolve(eng, st, e[1], e[2], min(e[3], upto))
    if k == 'not':
        return [(('not', x), s) for x, s in resolve_expr(eng, st, e[1], upto)]
    out = []
    for x, s1 in resolve_expr(eng, st, e[1], upto):
        for y, s2 in resolve_expr(eng, s1, e[2], upto):
            out.append(((k, x, y), s2))
    return out


def resolve(eng, st, region, off, upto=None):
    """the bit region[ off] after the first `upto` log entries, as resolved expressions with case splits"""
    log = st.wlog
    k = len(log) if upto is None else upto
    for j in range(k - 1, -1, -1):
        e = log[j]
        if e[0] == 'unknown':
            if e[1] in (region, '*'):
                return [(('u',), st)]
            continue
        if e[0] == 'rebase':
            continue
        dst = e[1]
        if not isinstance(dst, Ptr) or dst.region != region:
            continue
        if e[0] == 'flipall':
            return [(('not', x), s) for x, s in resolve(eng, st, region, off, j)]
        lo = dst.off
        n = lin(1) if e[0] == 'put' else e[2] if e[0] == 'map' else e[3]
        res = []
        inside = st.copy()
        inside.assume(ge(off, lo), lt(off, lo + n))
        if inside.ok():
            if e[0] == 'put':
                v = e[2]
                b = v if isinstance(v, Bit) else (Bit.of(v) or Bit(('v', v))) if isinstance(v, Lin) else None
                res.extend(resolve_expr(eng, inside, b.e, j) if b is not None else [(('u',), inside)])
            elif e[0] == 'fill':
                v = e[2]
                b = v if isinstance(v, Bit) else (Bit.of(v) or Bit(('v', v))) if isinstance(v, Lin) else None
                res.extend(resolve_expr(eng, inside, b.e, j) if b is not None else [(('u',), inside)])
            elif e[0] == 'copy':
                src = e[2]
                res.extend(resolve(eng, inside, src.region, src.off + (off - lo), j) if isinstance(src, Ptr)
                           else [(('u',), inside)])
            elif e[0] == 'map':
                _, _dst, _n, c, hname, expr, _dir = e
                # iteration h writes position h + c:  h = off - c; its reads see the content before the loop
                ex = subst_expr(expr, hname, off - c)
                ex = retime(ex, j)
                res.extend(resolve_expr(eng, inside, ex, j))
            else:
                res.append((('u',), inside))
        for extra in ([lt(off, lo)], [ge(off, lo + n)]):
            o = st.copy()
            o.assume(*extra)
            if o.ok():
                res.extend(resolve(eng, o, region, off, j))
        return res
    return [(('i', region, off), st)]


def retime(e, epoch):
    """reads of a summarised iteration refer to the log as it was before the loop"""
    k = e[0]
    if k == 'r':
        return ('r', e[1], e[2], epoch)
    if k == 'not':
        return ('not', retime(e[1], epoch))
    if k in ('and', 'or', 'xor'):
        return (k, retime(e[1], epoch), retime(e[2], epoch))
    return e


def same(st, a, b):
    a, b = simplify(a), simplify(b)
    if a[0] != b[0]:
        return False
    k = a[0]
    if k == 'c':
        return a[1] == b[1]
    if k == 'i':
        return a[1] == b[1] and entails(st.cons, ge(a[2], b[2])) and entails(st.cons, le(a[2], b[2]))
    if k == 'v':
        return entails(st.cons, ge(a[1], b[1])) and entails(st.cons, le(a[1], b[1]))
    if k == 'u':
        return False
    if k == 'not':
        return same(st, a[1], b[1])
    return (same(st, a[1], b[1]) and same(st, a[2], b[2])) or (same(st, a[1], b[2]) and same(st, a[2], b[1]))


def show(e):
    e = simplify(e)
    k = e[0]
    if k == 'c':
        return str(e[1])
    if k == 'i':
        return '%s[ %r]' % (e[1].replace('#bits', '').replace('.mData', ''), e[2])
    if k == 'v':
        return repr(e[1])
    if k == 'u':
        return '?'
    if k == 'not':
        return '!' + show(e[1])
    return '(%s %s %s)' % (show(e[1]), {'and': '&', 'or': '|', 'xor': '^'}[k], show(e[2]))
