"""bin/check entry point"""
import argparse
import signal
import importlib
import os
import sys
import traceback

from .facts import AnalysisBroken
from .report import Check


def build_independence(chk):
    """rule A0, applied to the repository functions of every program the check has analysed: no variable that the
    function also uses elsewhere is modified inside the operand of assert().  The analysis sees the -UNDEBUG
    expansion of assert(); a -DNDEBUG build drops the operand, and what the property rules decided about the
    function would not hold for that build."""
    from . import facts
    from .rules import assert_side_effects
    from .facts import walk, children, strip_all_casts, REPO
    seen = set()
    n = 0
    for prog in facts.LOADED:
        for f in prog.functions:
            if f.body is None or not f.file.startswith(REPO) or '/test/' in f.file or (f.file, f.line, f.name) in seen:
                continue
            seen.add((f.file, f.line, f.name))
            n += 1
            for y in assert_side_effects(f):
                tgt = strip_all_casts(children(y)[0]) if children(y) else {}
                if tgt.get('k') == 'CXXOperatorCallExpr' or y.get('k') == 'CXXOperatorCallExpr':
                    kids = [c for c in children(y) if c.get('k') != 'ImplicitCastExpr' or True]
                    tgt = strip_all_casts(kids[1]) if len(kids) > 1 else tgt
                ref = tgt.get('ref', {}) if tgt.get('k') in ('DeclRefExpr', 'MemberExpr') else {}
                name = ref.get('name')
                used_elsewhere = tgt.get('k') == 'MemberExpr' or sum(
                    1 for x in f.walk() if x.get('k') in ('DeclRefExpr', 'MemberExpr') and
                    x.get('ref', {}).get('name') == name) > 1
                if name is None or used_elsewhere:
                    chk.check(False, 'A0', f.name, 'no state change inside assert(): the function behaves the same with '
                              'and without NDEBUG', f.loc(y), '%s is modified by the operand of assert(); a -DNDEBUG '
                              'build drops the modification' % (name or 'a variable'))
    chk.rule('A0', 'build independence: no state change inside assert() in the analysed functions', 0)
    chk.ok('A0', '', 'functions scanned for state changes inside assert(): %d' % n)
    # rule A1, same scope: no function-local static whose initialiser uses a parameter, a local or the object.  Such
    # a variable is computed by whichever object / caller comes first in the process and then served to all others -
    # every property here speaks about each object (handler, log file set, text block, ...) on its own
    n_static = 0
    seen_decl = set()
    for prog in facts.LOADED:
        for f in prog.functions:
            if f.body is None or not f.file.startswith(REPO) or '/test/' in f.file:
                continue
            for x in f.walk():
                for d in (x.get('decls', []) if x.get('k') == 'DeclStmt' else []):
                    if not d.get('static') or (f.file, x.get('l'), d.get('name')) in seen_decl:
                        continue
                    seen_decl.add((f.file, x.get('l'), d.get('name')))
                    n_static += 1
                    deps = set()
                    if isinstance(d.get('init'), dict):
                        for y in walk(d['init']):
                            if y.get('k') == 'CXXThisExpr':
                                deps.add('this')
                            elif y.get('k') == 'DeclRefExpr' and y.get('ref', {}).get('sto') in ('param', 'local'):
                                deps.add(y['ref'].get('name'))
                    chk.check(not deps, 'A1', f.name, 'function-local static %s is not computed from the data of the '
                              'first caller' % d.get('name'), f.loc(x), 'its initialiser uses %s: every later object / '
                              'call gets the value computed for the first one' % ', '.join(sorted(deps)))
    chk.rule('A1', 'no function-local static initialised from per-call data in the analysed functions', 0)
    chk.ok('A1', '', 'function-local statics scanned: %d' % n_static)


def main():
    try:
        signal.signal(signal.SIGPIPE, signal.SIG_DFL)
    except (AttributeError, ValueError):
        pass
    ap = argparse.ArgumentParser()
    ap.add_argument('property')
    ap.add_argument('--tier', default=os.environ.get('VERIF_TIER', 'quick'), choices=['quick', 'thorough'])
    ap.add_argument('--replay', default=None,
                    help='violation report: re-evaluates the property on the current tree and '
                         'prints whether the reported instances still fail')
    args = ap.parse_args()
    pid = args.property.upper()
    try:
        mod = importlib.import_module('cv.props.' + pid.lower())
    except ImportError as e:
        print('no check for property %s (%s)' % (pid, e))
        return 2
    chk = Check(pid, args.tier)
    try:
        mod.run(chk)
        build_independence(chk)
        rc = chk.finish()
    except AnalysisBroken as e:
        if not chk.failures:
            print('ANALYSIS-BROKEN property=%s: %s' % (pid, e))
            return 2
        # a rule has already named a violating construct; a later rule that lost its anchor does not take that back
        print('ANALYSIS-INCOMPLETE property=%s: %s' % (pid, e))
        try:
            rc = chk.finish(partial=str(e))
        except AnalysisBroken as e2:
            print('ANALYSIS-BROKEN property=%s: %s' % (pid, e2))
            return 2
    except Exception:
        traceback.print_exc()
        print('ANALYSIS-BROKEN property=%s: internal error' % pid)
        return 2
    if args.replay:
        import json
        with open(args.replay) as fh:
            rep = json.load(fh)
        want = {(f['rule'], f['function'], f['what']) for f in rep.get('failures', [])}
        now = {(f['rule'], f['function'], f['what']) for f in chk.failures}
        for w in sorted(want):
            print('replay %s: %s' % ('STILL FAILS' if w in now else 'no longer fails', w))
    return rc


if __name__ == '__main__':
    sys.exit(main())
