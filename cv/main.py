"""bin/check entry point"""
import argparse
import signal
import importlib
import os
import sys
import traceback

from .facts import AnalysisBroken
from .report import Check


def main():
    try:
        signal.signal(signal.SIGPIPE, signal.SIG_DFL)
    except (AttributeError, ValueError):
        pass
    ap = argparse.ArgumentParser()
    ap.add_argument('property')
    ap.add_argument('--tier', default=os.environ.get('VERIF_TIER', 'quick'), choices=['quick', 'thorough'])
    ap.add_argument('--replay', default=None,
                    help='violation report: re-evaluates the property on the current tree and '
                         'prints whether the reported instances still fail')
    args = ap.parse_args()
    pid = args.property.upper()
    try:
        mod = importlib.import_module('cv.props.' + pid.lower())
    except ImportError as e:
        print('no check for property %s (%s)' % (pid, e))
        return 2
    chk = Check(pid, args.tier)
    try:
        mod.run(chk)
        rc = chk.finish()
    except AnalysisBroken as e:
        if not chk.failures:
            print('ANALYSIS-BROKEN property=%s: %s' % (pid, e))
            return 2
        # a rule has already named a violating construct; a later rule that lost its anchor does not take that back
        print('ANALYSIS-INCOMPLETE property=%s: %s' % (pid, e))
        try:
            rc = chk.finish(partial=str(e))
        except AnalysisBroken as e2:
            print('ANALYSIS-BROKEN property=%s: %s' % (pid, e2))
            return 2
    except Exception:
        traceback.print_exc()
        print('ANALYSIS-BROKEN property=%s: internal error' % pid)
        return 2
    if args.replay:
        import json
        with open(args.replay) as fh:
            rep = json.load(fh)
        want = {(f['rule'], f['function'], f['what']) for f in rep.get('failures', [])}
        now = {(f['rule'], f['function'], f['what']) for f in chk.failures}
        for w in sorted(want):
            print('replay %s: %s' % ('STILL FAILS' if w in now else 'no longer fails', w))
    return rc


if __name__ == '__main__':
    sys.exit(main())
