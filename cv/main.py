"""bin/check entry point"""
import argparse
import signal
import importlib
import os
import sys
import traceback

from .facts import AnalysisBroken
from .report import Check


def build_independence(chk):
    """rule A0, applied to the repository functions of every program the check has analysed: no variable that the
    function also uses elsewhere is modified inside the operand of assert().  The analysis sees the -UNDEBUG
    expansion of assert(); a -DNDEBUG build drops the operand, and what the property rules decided about the
    function would not hold for that build."""
    from . import facts
    from .rules import assert_side_effects
    from .facts import walk, children, strip_all_casts, REPO
    seen = set()
    n = 0
    for prog in facts.LOADED:
        for f in prog.functions:
            if f.body is None or not f.file.startswith(REPO) or '/test/' in f.file or (f.file, f.line, f.name) in seen:
                continue
            seen.add((f.file, f.line, f.name))
            n += 1
            for y in assert_side_effects(f):
                tgt = strip_all_casts(children(y)[0]) if children(y) else {}
                if tgt.get('k') == 'CXXOperatorCallExpr' or y.get('k') == 'CXXOperatorCallExpr':
                    kids = [c for c in children(y) if c.get('k') != 'ImplicitCastExpr' or True]
                    tgt = strip_all_casts(kids[1]) if len(kids) > 1 else tgt
                ref = tgt.get('ref', {}) if tgt.get('k') in ('DeclRefExpr', 'MemberExpr') else {}
                name = ref.get('name')
                used_elsewhere = tgt.get('k') == 'MemberExpr' or sum(
                    1 for x in f.walk() if x.get('k') in ('DeclRefExpr', 'MemberExpr') and
                    x.get('ref', {}).get('name') == name) > 1
                if name is None or used_elsewhere:
                    chk.check(False, 'A0', f.name, 'no state change inside assert(): the function behaves the same with '
                              'and without NDEBUG', f.loc(y), '%s is modified by the operand of assert(); a -DNDEBUG '
                              'build drops the modification' % (name or 'a variable'))
    chk.rule('A0', 'build independence: no state change inside assert() in the analysed functions', 0)
    chk.ok('A0', '', 'functions scanned for state changes inside assert(): %d' % n)


def main():
    try:
        signal.signal(signal.SIGPIPE, signal.SIG_DFL)
    except (AttributeError, ValueError):
        pass
    ap = argparse.ArgumentParser()
    ap.add_argument('property')
    ap.add_argument('--tier', default=os.environ.get('VERIF_TIER', 'quick'), choices=['quick', 'thorough'])
    ap.add_argument('--replay', default=None,
                    help='violation report: re-evaluates the property on the current tree and '
                         'prints whether the reported instances still fail')
    args = ap.parse_args()
    pid = args.property.upper()
    try:
        mod = importlib.import_module('cv.props.' + pid.lower())
    except ImportError as e:
        print('no check for property %s (%s)' % (pid, e))
        return 2
    chk = Check(pid, args.tier)
    try:
        mod.run(chk)
        build_independence(chk)
        rc = chk.finish()
    except AnalysisBroken as e:
        if not chk.failures:
            print('ANALYSIS-BROKEN property=%s: %s' % (pid, e))
            return 2
        # a rule has already named a violating construct; a later rule that lost its anchor does not take that back
        print('ANALYSIS-INCOMPLETE property=%s: %s' % (pid, e))
        try:
            rc = chk.finish(partial=str(e))
        except AnalysisBroken as e2:
            print('ANALYSIS-BROKEN property=%s: %s' % (pid, e2))
            return 2
    except Exception:
        traceback.print_exc()
        print('ANALYSIS-BROKEN property=%s: internal error' % pid)
        return 2
    if args.replay:
        import json
        with open(args.replay) as fh:
            rep = json.load(fh)
        want = {(f['rule'], f['function'], f['what']) for f in rep.get('failures', [])}
        now = {(f['rule'], f['function'], f['what']) for f in chk.failures}
        for w in sorted(want):
            print('replay %s: %s' % ('STILL FAILS' if w in now else 'no longer fails', w))
    return rc


if __name__ == '__main__':
    sys.exit(main())
