"""Engine E: effect analysis for objects with static storage duration.

Inventory of every such object defined in the analysed units, every access
site classified read / write, and a lockset-by-dominance test: an access is
'locked' if the construction of a std::lock_guard / unique_lock / scoped_lock
on a mutex with static storage dominates it and the guard is still alive."""
import re

from .facts import children, strip_casts

STATIC_STO = ('static_local', 'static_member', 'global')
SELF_SYNC_RE = re.compile(r'^(const )?(std::mutex|std::recursive_mutex|std::shared_mutex|std::timed_mutex|'
                          r'std::atomic<.*>|std::atomic_flag|std::once_flag|std::atomic_bool)$')
LOCK_RE = re.compile(r'^(const )?std::(lock_guard|unique_lock|scoped_lock)<')
ASSIGN_OPS = ('=', '+=', '-=', '*=', '/=', '%=', '<<=', '>>=', '&=', '|=', '^=')

NON_REENTRANT = {
    'localtime', 'gmtime', 'ctime', 'asctime', 'strtok', 'strerror', 'rand', 'srand', 'getenv_unsafe',
    'readdir', 'getpwnam', 'getpwuid', 'getgrnam', 'getgrgid', 'gethostbyname', 'inet_ntoa',
    'ttyname', 'tmpnam', 'setlocale', 'basename', 'dirname', 'getlogin', 'crypt', 'ecvt', 'fcvt',
    'drand48', 'lrand48', 'mrand48', 'random', 'srandom',
}


# functions that change state shared by the whole process (not an object with static storage of the program, so the
# effect rule on statics cannot see them): the process locale, the environment, the working directory, handlers
PROCESS_STATE_SETTERS = {
    'std::locale::global', 'setenv', 'putenv', 'unsetenv', 'clearenv', 'chdir', 'fchdir', 'umask', 'signal',
    'sigaction', 'std::set_terminate', 'std::set_new_handler', 'std::set_unexpected', 'std::ios_base::sync_with_stdio',
    'chroot', 'setrlimit', 'std::srand',
}


def var_id(ref):
    return ref.get('q') or ref.get('name')


def static_ref(node):
    """the referenced static-storage variable of a DeclRefExpr/MemberExpr, or None"""
    if node.get('k') not in ('DeclRefExpr', 'MemberExpr'):
        return None
    r = node.get('ref')
    if not r or r.get('dk') != 'Var':
        return None
    if r.get('sto') in STATIC_STO:
        return r
    return None


def is_self_synchronised(type_str):
    return bool(SELF_SYNC_RE.match(type_str or ''))


def classify_access(func, node):
    """'read' | 'write' for an lvalue reference node, by its syntactic context"""
    cur = node
    while True:
        p = func.parent(cur)
        if p is None:
            return 'read'
        k = p.get('k')
        kids = children(p)
        if k == 'ImplicitCastExpr':
            ck = p.get('ck')
            if ck == 'LValueToRValue':
                return 'read'
            if ck in ('ArrayToPointerDecay', 'NoOp', 'DerivedToBase', 'UncheckedDerivedToBase'):
                # NoOp adding const: a const view
                if ck == 'NoOp' and p.get('t', '').startswith('const '):
                    return 'read'
                cur = p
                continue
            return 'read'
        if k in ('CStyleCastExpr', 'CXXStaticCastExpr', 'CXXConstCastExpr', 'CXXReinterpretCastExpr',
                 'CXXFunctionalCastExpr'):
            cur = p
            continue
        if k == 'MemberExpr':
            # field of the object, or a method bound to it
            ref = p.get('ref', {})
            if ref.get('dk') == 'Function':
                gp = func.parent(p)
                if gp is not None and gp.get('k') == 'CXXMemberCallExpr' and children(gp) and children(gp)[0] is p:
                    if gp.get('cconst') or gp.get('cstatic'):
                        return 'read'
                    return 'write'
                return 'write'
            cur = p
            continue
        if k == 'ArraySubscriptExpr':
            if kids and kids[0] is cur:
                cur = p
                continue
            return 'read'
        if k == 'BinaryOperator':
            if p.get('op') in ASSIGN_OPS and kids and kids[0] is cur:
                return 'write'
            if p.get('op') == ',':
                if kids and kids[-1] is cur:
                    cur = p
                    continue
            return 'read'
        if k == 'CompoundAssignOperator':
            if kids and kids[0] is cur:
                return 'write'
            return 'read'
        if k == 'UnaryOperator':
            op = p.get('op')
            if op in ('++', '--'):
                return 'write'
            if op == '&':
                # address escapes: a write unless the pointee is const
                t = p.get('t', '')
                if t.startswith('const '):
                    return 'read'
                return 'write'
            if op == '*':
                cur = p
                continue
            return 'read'
        if k == 'CXXOperatorCallExpr':
            # kids[0] is the callee reference, then the operands
            args = kids[1:]
            idx = next((i for i, a in enumerate(args) if a is cur), None)
            if idx is None:
                return 'read'
            if p.get('cclass') and not p.get('cstatic'):
                # member operator: operand 0 is the object
                if idx == 0:
                    return 'read' if p.get('cconst') else 'write'
                pk = p.get('pk', [])
                kind = pk[idx - 1] if idx - 1 < len(pk) else 'val'
            else:
                pk = p.get('pk', [])
                kind = pk[idx] if idx < len(pk) else 'val'
            return 'write' if kind in ('ref', 'ptr', 'rref') else 'read'
        if k in ('CallExpr', 'CXXMemberCallExpr', 'CXXConstructExpr', 'CXXTemporaryObjectExpr'):
            if k == 'CXXConstructExpr' or k == 'CXXTemporaryObjectExpr':
                args = kids
            else:
                args = kids[1:]
            idx = next((i for i, a in enumerate(args) if a is cur), None)
            if idx is None:
                return 'read'
            pk = p.get('pk', [])
            kind = pk[idx] if idx < len(pk) else 'val'
            return 'write' if kind in ('ref', 'ptr', 'rref') else 'read'
        if k == 'ReturnStmt':
            # returning a reference/pointer to the object lets the caller write it
            rt = func.d.get('ret', '')
            if (rt.endswith('&') or rt.endswith('*')) and not rt.startswith('const '):
                return 'write'
            return 'read'
        if k == 'DeclStmt':
            for d in p.get('decls', []):
                if d.get('init') is cur:
                    t = d.get('t', '')
                    while t.rstrip().endswith('const') and ('*' in t or '&' in t):
                        t = t.rstrip()[:-5].rstrip()      # 'char *const': the pointer itself is const, not the pointee
                    if (t.endswith('&') or t.endswith('*')) and not t.startswith('const '):
                        return 'write'
            return 'read'
        if k == 'ConditionalOperator':
            cur = p
            continue
        return 'read'


class LockInfo:
    """lock guards constructed in a function: decl position, guarded mutex"""

    def __init__(self, func):
        self.func = func
        self.guards = []     # (did, decl_pos, mutex_ref, node)
        cfg = func.cfg
        if cfg is None:
            return
        for n in func.walk():
            if n.get('k') != 'DeclStmt':
                continue
            for d in n.get('decls', []):
                if not LOCK_RE.match(d.get('t', '')):
                    continue
                init = d.get('init')
                mref = None
                if isinstance(init, dict):
                    for x in _walk(init):
                        r = static_ref(x)
                        if r is not None:
                            mref = r
                            break
                        if x.get('k') == 'MemberExpr' and x.get('ref', {}).get('dk') == 'Field':
                            mref = mref or {'q': 'field:' + x['ref'].get('q', ''), 'sto': 'field'}
                pos = cfg.position(n)
                if pos is not None:
                    self.guards.append((d.get('did'), pos, mref, n))

    def held_at(self, pos, static_only=True):
        """guards (their mutex refs) certainly held at position pos"""
        cfg = self.func.cfg
        res = []
        for did, gpos, mref, n in self.guards:
            if static_only and (mref is None or mref.get('sto') not in STATIC_STO):
                continue
            if gpos == pos or not cfg.dominates(gpos, pos):
                continue
            # guard must still be alive: pos not reachable from the guard's
            # destructor without constructing it again
            dtor_positions = []
            for bid, b in cfg.blocks.items():
                for i, e in enumerate(b['e']):
                    if isinstance(e, dict) and e.get('did') == did and 'dtor' in e:
                        dtor_positions.append((bid, i))
            alive = True
            for dp in dtor_positions:
                seen = cfg.reach((dp[0], dp[1] + 1), lambda p, e: p == gpos)
                if pos in seen:
                    alive = False
                    break
            if alive:
                res.append(mref)
        return res


def _walk(n):
    from .facts import walk
    return walk(n)


def accesses(func):
    """all accesses to static-storage variables in a function:
    list of (ref, kind, node)"""
    res = []
    for n in func.walk():
        r = static_ref(n)
        if r is None:
            continue
        res.append((r, classify_access(func, n), n))
    return res


def inventory(prog):
    """static-storage objects defined in the analysed units, keyed by qualified name"""
    inv = {}
    for (q, f, l), v in prog.vars.items():
        key = q
        if v.get('kind') == 'static_local':
            key = (v.get('fn') or '?') + '::' + v['name']
        old = inv.get(key)
        if old is None or (v.get('isdef') and not old.get('isdef')):
            inv[key] = v
    return inv


def is_immutable(v):
    return bool(v.get('const')) and not v.get('has_mutable_fields')
