"""Reusable rule templates on top of cfg.py (Engine A)."""
import os


from .facts import children, strip_casts, strip_all_casts, walk, CALL_KINDS, VERIF, \
    load_program, library_units, units_matching

LOOP_KINDS = ('ForStmt', 'WhileStmt', 'DoStmt', 'CXXForRangeStmt')


def callee_is(call, *names):
    q = call.get('callee')
    if not q:
        return False
    return any(q == n or q.endswith('::' + n) for n in names)


def object_of(call):
    """object expression of a member call (stripped of casts), or None"""
    if call.get('k') != 'CXXMemberCallExpr':
        return None
    kids = children(call)
    if not kids or kids[0].get('k') != 'MemberExpr':
        return None
    base = children(kids[0])
    return strip_all_casts(base[0]) if base else None


def field_name(expr):
    """name of the field when expr is this->field / obj.field, else None"""
    e = strip_all_casts(expr) if expr else None
    if e and e.get('k') == 'MemberExpr' and e.get('ref', {}).get('dk') == 'Field':
        return e['ref']['name']
    return None


def call_args(call):
    kids = children(call)
    if call.get('k') in ('CXXConstructExpr', 'CXXTemporaryObjectExpr'):
        return kids
    if call.get('k') == 'CXXOperatorCallExpr':
        return kids[1:]
    return kids[1:]


def mentions_field(node, name):
    return any(x.get('k') == 'MemberExpr' and x.get('ref', {}).get('dk') == 'Field'
               and x['ref']['name'] == name for x in walk(node))


def mentions_call(node, *names):
    return any(x.get('k') in CALL_KINDS and callee_is(x, *names) for x in walk(node))


def mentions_var(node, name):
    return any(x.get('k') == 'DeclRefExpr' and x.get('ref', {}).get('name') == name for x in walk(node))


class Wrapper:
    """`is_target(call)` closed under wrappers: a callee whose every normal
    return path passes through a target counts as a target (inlining bound)."""

    def __init__(self, prog, pred, depth=3):
        self.prog = prog
        self.pred = pred
        self.depth = depth
        self.memo = {}

    def func_always(self, f, depth):
        key = (f.key, depth)
        if key in self.memo:
            return self.memo[key]
        self.memo[key] = False     # recursion guard
        cfg = f.cfg
        res = False
        if cfg is not None:
            bad = cfg.must_pass_through(lambda n: self.node_is(n, depth))
            res = not bad
        self.memo[key] = res
        return res

    def node_is(self, n, depth=None):
        if depth is None:
            depth = self.depth
        if n.get('k') not in CALL_KINDS or 'callee' not in n:
            return False
        if self.pred(n):
            return True
        if depth <= 0:
            return False
        targets = self.prog.call_targets(n)
        bodies = []
        for k in targets:
            fs = self.prog.by_key.get(k)
            if not fs:
                if k == n.get('ckey') and (n.get('virtcall') and len(targets) > 1):
                    continue       # pure/undefined base of a virtual: overriders decide
                return False
            bodies.append(fs[0])
        if not bodies:
            return False
        return all(self.func_always(b, depth - 1) for b in bodies)


def branch_when(cond, atom_pred, value):
    """which successor index (0 = true edge, 1 = false edge) is taken by a
    two-way branch on `cond` when the atom satisfying atom_pred has truth
    `value`; None if cond is not (a negation chain over) such an atom"""
    neg = False
    c = strip_all_casts(cond)
    while c is not None:
        if c.get('k') == 'UnaryOperator' and c.get('op') == '!':
            neg = not neg
            c = strip_all_casts(children(c)[0])
            continue
        break
    if c is None:
        return None
    if atom_pred(c):
        truth = value != neg
        return 0 if truth else 1
    # a conjunction / disjunction evaluated as a whole (join block): an operand that decides the outcome alone
    pol = _operand_polarity(c, atom_pred)
    if pol is not None:
        op, atom_truth_for_op_true = pol
        # '&&': the atom having the polarity that makes its conjunct false makes the whole false
        # '||': the atom having the polarity that makes its disjunct true makes the whole true
        if op == '&&' and value != atom_truth_for_op_true:
            whole = False
        elif op == '||' and value == atom_truth_for_op_true:
            whole = True
        else:
            return None
        truth = whole != neg
        return 0 if truth else 1
    return None


def _operand_polarity(c, atom_pred):
    """c is a pure '&&' (or pure '||') tree: returns (operator, truth value of the atom for which its operand is
    true) if the atom is one of the operands, possibly negated"""
    c = strip_all_casts(c)
    while c.get('k') == 'ParenExpr':
        c = strip_all_casts(children(c)[0])
    if c.get('k') != 'BinaryOperator' or c.get('op') not in ('&&', '||'):
        return None
    op = c['op']

    def operands(n):
        n = strip_all_casts(n)
        while n.get('k') == 'ParenExpr':
            n = strip_all_casts(children(n)[0])
        if n.get('k') == 'BinaryOperator' and n.get('op') == op:
            for k in children(n):
                yield from operands(k)
        else:
            yield n
    for o in operands(c):
        neg = False
        x = o
        while x.get('k') == 'UnaryOperator' and x.get('op') == '!':
            neg = not neg
            x = strip_all_casts(children(x)[0])
            while x.get('k') == 'ParenExpr':
                x = strip_all_casts(children(x)[0])
        if atom_pred(x):
            return op, (not neg)
    return None


def implied_edges(func, atom_pred, value):
    """CFG edges on which the atom is KNOWN to have the given value: the matching edge of a block that branches on
    the atom itself, the true edge of a block that branches on a conjunction containing it with that polarity, the
    false edge of a disjunction containing it with the opposite polarity"""
    cfg = func.cfg
    res = set()
    for bid, cond in cfg.cond_blocks():
        if cond is None:
            continue
        c = strip_all_casts(cond)
        neg = False
        while c is not None and c.get('k') == 'UnaryOperator' and c.get('op') == '!':
            neg = not neg
            c = strip_all_casts(children(c)[0])
        if c is None:
            continue
        br = None
        if atom_pred(c):
            br = 0 if (value != neg) else 1
        else:
            pol = _operand_polarity(c, atom_pred)
            if pol is not None:
                op, t = pol
                if op == '&&' and value == t:
                    br = 0 if not neg else 1      # whole true  =>  every conjunct true
                elif op == '||' and value != t:
                    br = 1 if not neg else 0      # whole false =>  every disjunct false
        if br is not None:
            e = cfg.edge_guard(bid, br)
            if e and e[1] is not None:
                res.add(e)
    return res


def exempt_edges(func, atom_pred, value):
    """CFG edges taken when an atom (satisfying atom_pred) has the given value"""
    cfg = func.cfg
    res = set()
    for bid, cond in cfg.cond_blocks():
        if cond is None:
            continue
        br = branch_when(cond, atom_pred, value)
        if br is None:
            continue
        e = cfg.edge_guard(bid, br)
        if e and e[1] is not None:
            res.add(e)
    return res


def loops_in(func):
    return [n for n in func.walk() if n.get('k') in LOOP_KINDS]


def loop_header(cfg, loop):
    """block whose terminator is the loop statement (evaluates the condition)"""
    for bid, b in cfg.blocks.items():
        if b.get('term') == loop['id'] and len(b['s']) == 2:
            return bid
    return None


def loop_iteration_must_pass(cfg, loop, is_target_node):
    """every path from the start of the loop body to the next evaluation of the
    loop condition (or to a return exit) passes through a target; returns a
    list of human-readable offences (empty = holds)"""
    h = loop_header(cfg, loop)
    if h is None:
        return ['loop header not found']
    body = cfg.succ[h][0]
    if body is None:
        return ['loop body unreachable']
    func = cfg.func

    def blocked(pos, e):
        if pos[0] == h:
            return True
        return isinstance(e, int) and func.node(e) is not None and is_target_node(func.node(e))
    seen = cfg.reach((body, 0), blocked)
    off = []
    if any(p[0] == h for p in seen if p[0] != 'exit_from'):
        off.append('an iteration can complete without the call')
    for p in cfg.pred[cfg.exit]:
        if cfg.exit_kind(p) == 'return' and ('exit_from', p) in seen:
            off.append('the loop can be left by return before the call')
    # leaving the loop by break: reaching the false-successor of the header
    out = cfg.succ[h][1]
    if out is not None and out != cfg.exit and (out, 0) in seen:
        off.append('the loop can be left by break before the call')
    return off


def in_loop(func, node, loop):
    return any(a is loop for a in func.ancestors(node))


def enclosing_loops(func, node):
    return [a for a in func.ancestors(node) if a.get('k') in LOOP_KINDS]


_PROG_CACHE = {}


def prog_args_program(with_driver=True):
    key = ('pa', with_driver)
    if key not in _PROG_CACHE:
        units = units_matching('library/prog_args/', 'library/appl/arg_string_2_array.cpp')
        if with_driver:
            units = units + [os.path.join(VERIF, 'drivers', 'prog_args_dest.cpp')]
        prog = load_program(units)
        _PROG_CACHE[key] = (prog, units)
    return _PROG_CACHE[key]


# ---------------------------------------------------------------------------
# loops that are driven by a read from an input stream

STREAM_READS = ('getline', 'operator>>', 'read', 'get', 'readsome', 'ignore')


def stream_read_in(cond):
    """the input operation (std::getline / istream::operator>> / read / get) inside a loop condition, or None"""
    for x in walk(cond):
        if x.get('k') in CALL_KINDS:
            q = x.get('callee') or ''
            short = q.split('::')[-1]
            if q == 'std::getline' or (short in STREAM_READS and ('basic_istream' in q or 'basic_ifstream' in q)):
                return x
            if short == 'operator>>' and 'basic_istream' in (x.get('t') or ''):
                return x
    return None


def stream_loop_condition(cond):
    """classifies a loop condition built on an input operation `r`:
         'success'  the condition is exactly "the read succeeded" (stream converted to bool, !r.fail()): the loop ends at
                    the first failed read - end of file OR error - and its body runs for every record the read delivered
         'good'     r.good(): ends at the first failure, but an unterminated last record (characters extracted, eofbit
                    set) is not processed
         'eof'      !r.eof(): never ends when the stream fails without reaching the end (badbit: unreadable file,
                    directory), and an unterminated last record is not processed
         'other'    anything else (a disjunction that lets the loop continue after a failed read, ...)"""
    c = strip_all_casts(cond)
    neg = False
    while True:
        while c.get('k') in ('ParenExpr', 'ExprWithCleanups', 'MaterializeTemporaryExpr', 'CXXBindTemporaryExpr') \
                and children(c):
            c = strip_all_casts(children(c)[0])
        if c.get('k') == 'UnaryOperator' and c.get('op') == '!':
            neg = not neg
            c = strip_all_casts(children(c)[0])
            continue
        if c.get('k') == 'CXXOperatorCallExpr' and c.get('op') == '!' and len(children(c)) >= 2:
            neg = not neg
            c = strip_all_casts(children(c)[1])
            continue
        break
    k = c.get('k')
    if k in CALL_KINDS:
        q = c.get('callee') or ''
        short = q.split('::')[-1]
        inner = object_of(c)
        reads_inside = inner is not None and stream_read_in(inner) is not None
        if short.startswith('operator bool') or short in ('operator void *', 'operator void*'):
            return 'success' if (reads_inside and not neg) else 'other'
        if short == 'fail' and reads_inside:
            return 'success' if neg else 'other'
        if short == 'good' and reads_inside:
            return 'good' if not neg else 'other'
        if short == 'eof' and reads_inside:
            return 'eof' if neg else 'other'
        if stream_read_in(c) is c:
            # the stream object itself in a boolean context
            return 'success' if not neg else 'other'
    return 'other'


ASSERT_FAIL = ('__assert_fail', '__assert', '__assert_perror_fail', '_assert')


def assert_side_effects(func):
    """state changes that are operands of assert(): they exist only in builds without NDEBUG.  The analysis runs
    with -UNDEBUG, where glibc's assert( e) is  (e) ? void( 0) : __assert_fail( ...)  - reported are increments,
    decrements and assignments inside the condition of such an expression.  Returns the offending nodes."""
    res = []
    for x in func.walk():
        if x.get('k') != 'ConditionalOperator':
            continue
        kids = children(x)
        if len(kids) != 3 or not any(y.get('k') in CALL_KINDS and (y.get('callee') or '').split('::')[-1] in ASSERT_FAIL
                                     for y in walk(kids[2])):
            continue
        for y in walk(kids[0]):
            k = y.get('k')
            if (k == 'UnaryOperator' and y.get('op') in ('++', '--')) or k == 'CompoundAssignOperator' or \
                    (k == 'BinaryOperator' and y.get('op') == '=') or \
                    (k == 'CXXOperatorCallExpr' and y.get('op') in ('=', '+=', '-=', '++', '--', '|=', '&=', '^=', '<<=', '>>=')):
                res.append(y)
    return res
