"""Engine C, part 1: linear expressions over symbols and an exact rational
Fourier-Motzkin decision procedure for conjunctions of linear inequalities.
No SMT solver is involved: entailment is decided by variable elimination."""
from fractions import Fraction


class Lin:
    """c0 + sum(ci * xi), integer/rational coefficients"""
    __slots__ = ('co', 'c')

    def __init__(self, co=None, c=0):
        self.co = {k: v for k, v in (co or {}).items() if v != 0}
        self.c = c

    @staticmethod
    def const(v):
        return Lin({}, v)

    @staticmethod
    def sym(name):
        return Lin({name: 1}, 0)

    def is_const(self):
        return not self.co

    def __add__(self, o):
        o = lin(o)
        co = dict(self.co)
        for k, v in o.co.items():
            co[k] = co.get(k, 0) + v
        return Lin(co, self.c + o.c)

    __radd__ = __add__

    def __neg__(self):
        return Lin({k: -v for k, v in self.co.items()}, -self.c)

    def __sub__(self, o):
        return self + (-lin(o))

    def __rsub__(self, o):
        return lin(o) - self

    def scale(self, f):
        return Lin({k: v * f for k, v in self.co.items()}, self.c * f)

    def __mul__(self, o):
        o = lin(o)
        if o.is_const():
            return self.scale(o.c)
        if self.is_const():
            return o.scale(self.c)
        raise ValueError('non-linear')

    def syms(self):
        return set(self.co)

    def subst(self, name, val):
        if name not in self.co:
            return self
        f = self.co[name]
        co = {k: v for k, v in self.co.items() if k != name}
        return Lin(co, self.c) + lin(val).scale(f)

    def key(self):
        return (tuple(sorted(self.co.items())), self.c)

    def __eq__(self, o):
        return isinstance(o, Lin) and self.key() == o.key()

    def __hash__(self):
        return hash(self.key())

    def __repr__(self):
        parts = []
        for k, v in sorted(self.co.items()):
            if v == 1:
                parts.append('+%s' % k)
            elif v == -1:
                parts.append('-%s' % k)
            else:
                parts.append('%+g*%s' % (float(v), k))
        if self.c or not parts:
            parts.append('%+g' % float(self.c) if isinstance(self.c, Fraction) else '%+d' % self.c)
        s = ''.join(parts)
        return s[1:] if s.startswith('+') else s


def lin(x):
    if isinstance(x, Lin):
        return x
    if isinstance(x, bool):
        return Lin.const(int(x))
    if isinstance(x, (int, Fraction)):
        return Lin.const(x)
    raise TypeError('not linear: %r' % (x,))


# a constraint is a Lin e meaning  e >= 0

def ge(a, b):
    return lin(a) - lin(b)


def le(a, b):
    return lin(b) - lin(a)


def gt(a, b):
    return lin(a) - lin(b) - 1          # integers


def lt(a, b):
    return lin(b) - lin(a) - 1


def eq(a, b):
    d = lin(a) - lin(b)
    return [d, -d]


class TooBig(Exception):
    pass


def _normalise(e):
    """divide by the gcd-like factor so that duplicates are recognised"""
    if e.is_const():
        return e
    m = None
    for v in e.co.values():
        a = abs(Fraction(v))
        m = a if m is None or a < m else m
    if m and m != 1:
        return Lin({k: Fraction(v) / m for k, v in e.co.items()}, Fraction(e.c) / m)
    return e


def feasible(cons, limit=4000):
    """is the conjunction of  e >= 0  (e in cons) satisfiable over the rationals?
    Fourier-Motzkin elimination; raises TooBig if the system explodes"""
    cur = set()
    for e in cons:
        e = _normalise(lin(e))
        if e.is_const():
            if e.c < 0:
                return False
            continue
        cur.add(e)
    while True:
        syms = set()
        for e in cur:
            syms |= e.syms()
        if not syms:
            return True
        # choose the variable with the fewest resulting combinations
        best = None
        for s in syms:
            pos = sum(1 for e in cur if e.co.get(s, 0) > 0)
            neg = sum(1 for e in cur if e.co.get(s, 0) < 0)
            cost = pos * neg - pos - neg
            if best is None or cost < best[0]:
                best = (cost, s)
        s = best[1]
        pos = [e for e in cur if e.co.get(s, 0) > 0]
        neg = [e for e in cur if e.co.get(s, 0) < 0]
        rest = {e for e in cur if s not in e.co}
        for p in pos:
            for n in neg:
                # p: a*s + P >= 0 (a>0), n: -b*s + N >= 0 (b>0)  =>  b*P + a*N >= 0
                a = Fraction(p.co[s])
                b = -Fraction(n.co[s])
                comb = p.scale(b) + n.scale(a)
                comb = Lin({k: v for k, v in comb.co.items() if k != s}, comb.c)
                comb = _normalise(comb)
                if comb.is_const():
                    if comb.c < 0:
                        return False
                    continue
                rest.add(comb)
        if len(rest) > limit:
            raise TooBig()
        cur = rest


def entails(cons, goal):
    """cons |= goal >= 0  over the integers (sound: decided over the rationals with the
    integer-strengthened negation  goal <= -1)"""
    try:
        return not feasible(list(cons) + [-lin(goal) - 1])
    except TooBig:
        return False


def entails_all(cons, goals):
    return all(entails(cons, g) for g in goals)
