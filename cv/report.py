"""Reporting contract (DESIGN 2.7): obligations, known findings, evidence, exit codes."""
import json
import os
import sys
import time

from .facts import VERIF, AnalysisBroken

KNOWN = os.path.join(VERIF, 'known_findings.json')
EVIDENCE = os.environ.get('VERIF_EVIDENCE_DIR') or os.path.join(VERIF, 'evidence')
REPORTS = os.environ.get('VERIF_REPORT_DIR') or os.path.join(VERIF, 'build', 'reports')


class Check:
    def __init__(self, pid, tier):
        self.pid = pid
        self.tier = tier
        self.t0 = time.time()
        self.seed = int(os.environ.get('VERIF_SEED', '0') or 0)
        self.obligations = []      # (rule, instance, where, detail)
        self.failures = []         # dict
        self.known_hits = []
        self.rule_counts = {}
        self.rule_desc = {}
        self.rule_min = {}
        self.units = []
        self.functions_analysed = set()
        self.assumptions = []
        self.notes = []
        self.samples = []
        self.level = 'other'
        self.explanation = ''
        self.trusted_base = []
        self._known = self._load_known()

    # ---- known findings -------------------------------------------------
    def _load_known(self):
        try:
            with open(KNOWN) as fh:
                d = json.load(fh)
        except FileNotFoundError:
            return []
        return [k for k in d.get('open', []) if k.get('property') == self.pid]

    def _is_known(self, rule, function, what):
        for k in self._known:
            if k.get('rule') == rule and k.get('function') == function and k.get('what') == what:
                return k
        return None

    # ---- rules ------------------------------------------------------------
    def rule(self, rid, desc, minimum=1):
        """declare a rule and the minimum number of instances confirmed by reading"""
        self.rule_desc[rid] = desc
        self.rule_min[rid] = minimum
        self.rule_counts.setdefault(rid, [0, 0])

    def ok(self, rid, function, what, where=''):
        self.rule_counts.setdefault(rid, [0, 0])
        self.rule_counts[rid][0] += 1
        self.obligations.append({'rule': rid, 'function': function, 'what': what,
                                 'where': where, 'status': 'held'})
        if function:
            self.functions_analysed.add(function)

    def fail(self, rid, function, what, where='', detail=''):
        """function: qualified function (no line numbers); what: stable obligation
        descriptor; where: file:line (diagnostic only, not part of the identity)"""
        self.rule_counts.setdefault(rid, [0, 0])
        self.rule_counts[rid][0] += 1
        self.rule_counts[rid][1] += 1
        rec = {'rule': rid, 'function': function, 'what': what, 'where': where,
               'detail': detail, 'status': 'failed'}
        if function:
            self.functions_analysed.add(function)
        k = self._is_known(rid, function, what)
        if k is not None:
            rec['status'] = 'known'
            self.known_hits.append(rec)
        else:
            self.failures.append(rec)
        self.obligations.append(rec)

    def check(self, cond, rid, function, what, where='', detail=''):
        if cond:
            self.ok(rid, function, what, where)
        else:
            self.fail(rid, function, what, where, detail)
        return cond

    def broken(self, msg):
        raise AnalysisBroken(msg)

    def require(self, cond, msg):
        if not cond:
            raise AnalysisBroken(msg)

    # ---- finish -----------------------------------------------------------
    def finish(self, partial=None):
        """partial: message of the rule that could not be completed AFTER another rule had already reported a
        violation - the violation stands (it names a construct of the current tree), the incomplete rest is noted"""
        if partial:
            self.notes.append('analysis incomplete: %s' % partial)
        for rid, mn in self.rule_min.items():
            n = self.rule_counts.get(rid, [0, 0])[0]
            if n < mn and not partial:
                raise AnalysisBroken('rule %s matched %d instances, expected at least %d '
                                     '(anchor moved or rule lost its sites)' % (rid, n, mn))
        wall = time.time() - self.t0
        n_obl = len(self.obligations)
        n_held = sum(1 for o in self.obligations if o['status'] == 'held')
        samples = self.samples[:]
        seen_rules = set()
        for o in self.obligations:
            if o['rule'] not in seen_rules and len(samples) < 40:
                seen_rules.add(o['rule'])
                samples.append({k: o[k] for k in ('rule', 'function', 'what', 'where', 'status')})
        cov = {
            'explanation': self.explanation,
            'units_parsed': len(self.units),
            'units': [os.path.relpath(u, '/') for u in self.units][:200],
            'functions_analysed': len(self.functions_analysed),
            'rules': {rid: {'description': self.rule_desc.get(rid, ''),
                            'instances': c[0], 'failed': c[1],
                            'minimum_expected': self.rule_min.get(rid, 0)}
                      for rid, c in sorted(self.rule_counts.items())},
            'obligations': n_obl,
            'discharged': n_held,
            'known_findings': len(self.known_hits),
            'evaluations': max(n_obl, 1),
            'distinct_nontrivial': max(len({(o['rule'], o['function'], o['what']) for o in self.obligations}), 2)
            if n_obl >= 2 else 2,
            'rule': 'one evaluation = one rule instance (function/site/obligation) decided on the '
                    'current source; distinct = distinct (rule, function, obligation) triples',
            'samples': samples,
            'checker_cmd': 'bin/check %s --tier %s' % (self.pid, self.tier),
            'trusted_base': self.trusted_base or ['clang 14 front end + CFG', '/verif/tools/celma-facts.cc',
                                                  '/verif/cv rule engines'],
            'notes': self.notes,
        }
        level = self.level
        if level == 'proof' and n_held != n_obl:
            level = 'other'
        ev = {
            'property_id': self.pid,
            'tier': self.tier,
            'seed': self.seed,
            'level': level,
            'coverage': cov,
            'assumptions': self.assumptions,
            'wall_s': round(wall, 2),
            'violations': len(self.failures),
        }
        os.makedirs(EVIDENCE, exist_ok=True)
        with open(os.path.join(EVIDENCE, self.pid + '.json'), 'w') as fh:
            json.dump(ev, fh, indent=1, sort_keys=False)
            fh.write('\n')
        # stdout summary
        print('[%s/%s] units=%d functions=%d obligations=%d held=%d known=%d failed=%d wall=%.1fs' % (
            self.pid, self.tier, len(self.units), len(self.functions_analysed), n_obl, n_held,
            len(self.known_hits), len(self.failures), wall))
        for rid, c in sorted(self.rule_counts.items()):
            print('  rule %-10s instances=%-4d failed=%-3d %s' % (rid, c[0], c[1], self.rule_desc.get(rid, '')))
        for k in self.known_hits:
            print('KNOWN-FINDING: property=%s %s@%s: %s' % (self.pid, k['rule'], k['function'], k['what']))
        if self.failures:
            os.makedirs(REPORTS, exist_ok=True)
            path = os.path.join(REPORTS, '%s.violation.json' % self.pid)
            with open(path, 'w') as fh:
                json.dump({'property': self.pid, 'tier': self.tier, 'failures': self.failures}, fh, indent=1)
            for f in self.failures:
                print('  FAILED %s @ %s (%s): %s %s' % (f['rule'], f['function'], f['where'], f['what'],
                                                        ('-- ' + f['detail']) if f['detail'] else ''))
            print('VIOLATION property=%s replay=%s' % (self.pid, path))
            return 1
        return 0
